"""Correspondence section: pformat of values (printers for the built-in types, comments, truncation, depth) vs the Lean
model M2, plus the CPython-side oracles of C01 / C03 / C09 / C10 / C11 evaluated on the implementation's own output."""
import ast
import datetime
import io
import multiprocessing as mp
import random
import sys
import tokenize
import warnings

import common
from common import Driver, NCPU
import docs as DOCS
from docs import sdocs_to_sx, sx_str
import values as V
from values import val_to_sx, settings_sx

import prettyprinter as pp
from prettyprinter.render import default_render_to_str

P = sys.modules['prettyprinter.prettyprinter']

_drv = None


def _driver():
    global _drv
    if _drv is None:
        _drv = Driver()
    return _drv


def impl_piece(value, st):
    """st = (indent, width, ribbon, depth, msl, sort).  Returns (piece, text, warning kinds)."""
    indent, width, ribbon, depth, msl, sort = st
    with warnings.catch_warnings(record=True) as w:
        warnings.simplefilter('always')
        try:
            with common.time_limit():
                sd = list(P.python_to_sdocs(value, indent=indent, width=width, depth=depth, ribbon_width=ribbon,
                                            max_seq_len=msl, sort_dict_keys=sort))
                # the text comes from the public entry point (so that the settings glue of __init__.py is on the path)
                text = pp.pformat(value, indent=indent, width=width, depth=depth, ribbon_width=ribbon,
                                  max_seq_len=msl, sort_dict_keys=sort)
            piece = '(%s %s)' % (sdocs_to_sx(sd), sx_str('text', text))
        except (Exception, common.ImplTimeout) as e:
            return '(error %s)' % type(e).__name__, None, ['raised']
    kinds = []
    for x in w:
        m = str(x.message)
        if 'raised an exception' in m:
            kinds.append('printer-failed')
        elif 'does not support rendering trailing comments' in m:
            kinds.append('trailing-unsupported')
        else:
            kinds.append('other')
    if 'printer-failed' in kinds:
        piece = '(warn printer-failed %s)' % piece
    return piece, text, kinds


def settings_for(rng, value, tier, sorts=(0,)):
    out = []
    widths = [1, 2, 3, 5, 8, 10, 13, 20, 40, 79] if tier == 'quick' else [1, 2, 3, 4, 5, 6, 8, 10, 12, 13, 16, 20, 30, 40, 60, 79, 120, 200]
    for w in widths:
        for r in {1, max(1, w // 2), w}:
            if not V.ribbon_ok(w, r):
                continue
            for s in sorts:
                out.append((rng.choice([4, 4, 4, 1, 2, 8]), w, r, None, 1000, s))
    return out


def sortable(value):
    """every dict in the value has mutually comparable keys the model can order (numbers / str / bytes / tuples of those, one family)"""
    def fam(k):
        k = V.strip_comments(k)
        if k is None:
            return 'none'
        if k is Ellipsis:
            return 'ellipsis'
        if isinstance(k, bool) or isinstance(k, int):
            return 'num'
        if isinstance(k, float):
            return 'num' if k == k else None
        if isinstance(k, str):
            return 'str'
        if isinstance(k, bytes):
            return 'bytes'
        if type(k) is tuple:
            fs = [fam(x) for x in k]
            if None in fs:
                return None
            return ('tuple',) + tuple(fs)
        return None

    def walk(v):
        v0 = v
        while isinstance(v0, (P._CommentedValue, P._TrailingCommentedValue)):
            v0 = v0.value
        if isinstance(v0, dict):
            fams = {fam(k) for k in v0}
            if None in fams:
                return False
            if len(fams) > 1:
                # keys of several families are ordered by the names of their types (fix F23).  The model agrees with `sorted` whenever
                # that comparison is a consistent total pre-order: at most one family of tuples, and number keys of one exact type
                # (int / float / bool compare by value among each other, but their type names interleave with 'bytes' and 'bool')
                keys = [V.strip_comments(k) for k in v0]
                # (two keys are always fine: any `<` orders a pair consistently, and a stable sort leaves a tie as inserted)
                if len(keys) > 2 and sum(1 for f in fams if isinstance(f, tuple)) > 1:
                    return False
                if len(keys) > 2 and len({type(k) for k in keys if isinstance(k, (int, float))}) > 1:
                    return False
                # the fallback compares (module, qualname) of the key types; the model knows the names of the built-in types only
                if any(type(k) not in (int, float, bool, str, bytes, tuple, type(None), type(Ellipsis)) for k in keys):
                    return False
            # tuples of different length/shape compare fine only if elementwise families agree: be conservative
            return all(walk(k) and walk(x) for k, x in v0.items())
        if isinstance(v0, (list, tuple, set, frozenset)):
            return all(walk(x) for x in v0)
        desc = getattr(v0, '__verif_call__', None)
        if desc is not None:
            c = desc()
            return all(walk(a) for a in c.args) and all(walk(x) for _, x in c.kwargs)
        return True
    return walk(value)


# ---- oracles on the implementation's output ---------------------------------------------------

def oracle_c01(value, text):
    """the printed text, in parentheses, evaluates to a structurally equal value with the same types"""
    try:
        got = eval('(' + text + '\n)', {'__builtins__': {'float': float, 'set': set, 'frozenset': frozenset, 'True': True,
                                                          'False': False, 'None': None, 'Ellipsis': Ellipsis}})
    except Exception as e:
        return 'does not evaluate (%s)' % type(e).__name__
    if not V.same(got, value):
        return 'evaluates to %r' % (got,)
    return None


def sorted_copy(v):
    """the value with every dict re-inserted in ascending key order (what sort_dict_keys=True must print)"""
    if type(v) is dict:
        import functools

        def cmp(a, b):
            # ascending where `<` is defined; keys that cannot be compared are grouped by the name of their type and keep insertion order
            try:
                return -1 if a < b else (1 if b < a else 0)
            except TypeError:
                ta, tb = (type(a).__module__, type(a).__qualname__), (type(b).__module__, type(b).__qualname__)
                return -1 if ta < tb else (1 if tb < ta else 0)
        return {sorted_copy(k): sorted_copy(v[k]) for k in sorted(v.keys(), key=functools.cmp_to_key(cmp))}
    if type(v) in (list, tuple):
        return type(v)(sorted_copy(x) for x in v)
    if type(v) in (set, frozenset):
        return type(v)(sorted_copy(x) for x in v)
    if type(v).__name__ == 'CallObj' and hasattr(v, '__verif_call__'):
        # the dicts inside the arguments are sorted; the keyword arguments themselves keep the order given (C17)
        return type(v)(v.fn, tuple(sorted_copy(x) for x in v.args), [(k, sorted_copy(x)) for k, x in v.kwargs])
    return v


def ast_of(text):
    return ast.dump(ast.parse('(' + text + '\n)', mode='eval'))


def comment_words(text):
    words = []
    try:
        for tok in tokenize.generate_tokens(io.StringIO('(' + text + '\n)').readline):
            if tok.type == tokenize.COMMENT:
                words.extend(tok.string[1:].split())
    except Exception:
        return None
    return words


def renders_trailing(x):
    """does the printer of x render a trailing comment?  (non-empty list/tuple/set incl. subclasses, any dict)"""
    if isinstance(x, dict):
        return True
    if isinstance(x, (list, tuple, set)):
        return len(x) > 0 and not (isinstance(x, tuple) and (P._is_namedtuple(x) or P._is_cnamedtuple(x)))
    return False


def attached_comment_words(v, drop_unrendered_trailing=False):
    """words of all attached comments (compared as multisets: key/value comment order is layout dependent)"""
    out = []

    def walk(x):
        wrappers = []
        while isinstance(x, (P._CommentedValue, P._TrailingCommentedValue)):
            wrappers.append(x)
            x = x.value
        # innermost wrapper of each kind wins (unwrap_comments); outer ones of the same kind are overwritten
        seen = set()
        for w in reversed(wrappers):
            kind = type(w)
            if kind in seen:
                continue
            seen.add(kind)
            if kind is P._TrailingCommentedValue and drop_unrendered_trailing and not renders_trailing(x):
                continue
            out.extend(w.comment.split())
        if isinstance(x, dict):
            for k, y in x.items():
                walk(k)
                walk(y)
        elif isinstance(x, (list, tuple, set, frozenset)):
            for y in x:
                walk(y)
        elif type(x).__name__ == 'CallObj':
            for y in x.args:
                walk(y)
            for _, y in x.kwargs:
                walk(y)
    walk(v)
    return out


def contains_set(v):
    """sets are rebuilt when comments are stripped, which changes their iteration order: no element-order comparison for them"""
    if isinstance(v, (set, frozenset)):
        return True
    if isinstance(v, dict):
        return any(contains_set(k) or contains_set(x) for k, x in v.items())
    if isinstance(v, (list, tuple)):
        return any(contains_set(x) for x in v)
    if type(v).__name__ == 'CallObj':
        return any(contains_set(x) for x in v.args) or any(contains_set(x) for _, x in v.kwargs)
    return False


def comment_inside_tuple_key(v):
    """a comment wrapper inside a dict key where the sort key does not look (Lean: not `keyOk`): the sort key drops comments around the
    key and around the elements of tuple keys at every depth (fix F22); a comment inside any other hashable container used as a key (a
    frozenset key with a commented element) still makes the key unorderable, and such values are not printed with sort_dict_keys=True here"""
    def unwrap(x):
        while isinstance(x, (P._CommentedValue, P._TrailingCommentedValue)):
            x = x.value
        return x

    def has_comment(x):
        if isinstance(x, (P._CommentedValue, P._TrailingCommentedValue)):
            return True
        if isinstance(x, (list, tuple, set, frozenset)):
            return any(has_comment(y) for y in x)
        if isinstance(x, dict):
            return any(has_comment(a) or has_comment(b) for a, b in x.items())
        return False

    def key_ok(k):
        k = unwrap(k)
        if isinstance(k, tuple):
            return all(key_ok(e) for e in k)
        return not has_comment(k)

    def walk(x):
        x = unwrap(x)
        if isinstance(x, dict):
            for k, y in x.items():
                if not key_ok(k) or walk(unwrap(k)) or walk(y):
                    return True
            return False
        if isinstance(x, (list, tuple, set, frozenset)):
            return any(walk(y) for y in x)
        return False
    return walk(v)


def has_trailing_on_empty_dict_subclass(v):
    """does the value contain trailing_comment(x, non-empty text) with x an empty instance of a proper dict subclass?  (finding K7)"""
    found = [False]

    def walk(x, trailing=False):
        if isinstance(x, P._TrailingCommentedValue):
            return walk(x.value, trailing or bool(x.comment))
        if isinstance(x, P._CommentedValue):
            return walk(x.value, trailing)
        if isinstance(x, dict):
            if trailing and not x and type(x) is not dict:
                found[0] = True
            for k, y in x.items():
                walk(k)
                walk(y)
        elif isinstance(x, (list, tuple, set, frozenset)):
            for y in x:
                walk(y)
        elif type(x).__name__ == 'CallObj':
            for y in x.args:
                walk(y)
            for _, y in x.kwargs:
                walk(y)
    walk(v)
    return found[0]


def value_chunk(args):
    cases, mode = args
    drv = _driver()
    mism, fails = [], []
    n = nt = 0
    for (value, sets) in cases:
        sx = val_to_sx(value)
        pieces, texts = [], []
        for st in sets:
            p, text, kinds = impl_piece(value, st)
            pieces.append(p)
            texts.append(text)
            n += 1
        if len(set(texts)) > 1:
            nt += 1
        g = drv.ask('(pformat %s %s)' % (sx, ' '.join(settings_sx(*st) for st in sets)))
        e = '(ok ' + ' '.join(pieces) + ')'
        if g != e:
            for st, p in zip(sets, pieces):
                g1 = drv.ask('(pformat %s %s)' % (sx, settings_sx(*st)))
                if g1 != '(ok ' + p + ')':
                    mism.append({'value': repr(value)[:300], 'value_sx': sx[:2000], 'settings': st, 'impl': p[:1500], 'model': g1[:1500]})
                    break
            else:
                mism.append({'value': repr(value)[:300], 'error': 'batched answer differs'})
        # oracles on the implementation's output
        if len(fails) < 3:
            plain = V.strip_comments(value)
            ref_ast = None
            for st, text in zip(sets, texts):
                if text is None:
                    fails.append({'kind': 'pformat-raises', 'value': repr(value)[:300], 'settings': st})
                    break
                bad = None
                if mode in ('c01', 'c09'):
                    bad = oracle_c01(sorted_copy(plain) if st[5] else plain, text)
                    if bad and ('subclasses.' in text or 'Geometry.' in text or '_verif_private.' in text):       # instances of the generated subclasses: evaluate with their module in scope
                        bad = oracle_eval_equal(plain, text)
                    if bad:
                        bad = {'kind': 'does-not-evaluate-back', 'why': bad}
                if not bad and mode in ('c01', 'c03', 'c09'):
                    try:
                        a = ast_of(text)
                    except SyntaxError:
                        a = None
                        bad = {'kind': 'not-an-expression'}
                    if a is not None:
                        key = st[5]
                        if ref_ast is None:
                            ref_ast = {}
                        if key not in ref_ast:
                            ref_ast[key] = a
                        elif a != ref_ast[key]:
                            bad = {'kind': 'syntax-tree-depends-on-layout'}
                    if not bad:
                        ind = st[0]
                        for line in text.split('\n')[1:]:
                            lead = len(line) - len(line.lstrip(' '))
                            if line.strip() and lead % ind != 0:
                                bad = {'kind': 'indent-not-multiple', 'line': line}
                                break
                if not bad and mode == 'c09' and a is not None and not contains_set(plain):
                    # "the same syntax tree as the uncommented value": the uncommented value printed with the same settings
                    try:
                        with warnings.catch_warnings():
                            warnings.simplefilter('ignore')
                            t0 = pp.pformat(plain, indent=st[0], width=st[1], depth=st[3], ribbon_width=st[2], max_seq_len=st[4], sort_dict_keys=st[5])
                        a0 = ast_of(t0)
                    except Exception:
                        a0 = None
                    if a0 is not None and a0 != a:
                        bad = {'kind': 'syntax-tree-differs-from-uncommented', 'uncommented': t0[:300],
                               'empty_dict_subclass_with_trailing_comment': has_trailing_on_empty_dict_subclass(value)}
                if not bad and mode == 'c09':
                    got = comment_words(text)
                    want = attached_comment_words(value)
                    if got is None or sorted(got) != sorted(want):
                        if got is not None and sorted(got) == sorted(attached_comment_words(value, True)):
                            bad = {'kind': 'trailing-comment-not-rendered', 'got': got, 'want': want}
                        else:
                            bad = {'kind': 'comment-words-differ', 'got': got, 'want': want}
                if bad:
                    bad.update({'value': repr(value)[:300], 'settings': st, 'text': text[:600]})
                    fails.append(bad)
                    break
    return n, nt, mism, fails


def run_cases(cases, mode, chunk=25):
    chunks = [(cases[i:i + chunk], mode) for i in range(0, len(cases), chunk)]
    tot = nt = 0
    mism, fails = [], []
    if not chunks:
        return 0, 0, [], []
    with mp.Pool(min(NCPU, len(chunks))) as pool:
        for n, t, mm, ff in pool.imap_unordered(value_chunk, chunks):
            tot += n
            nt += t
            mism.extend(mm)
            fails.extend(ff)
    return tot, nt, mism, fails


def builtin_values_section(tier, seed):
    """C01: built-in value trees, all layout settings, both sort flags (sort only where the keys are comparable)."""
    rng = random.Random(seed * 1009 + 3)
    by = V.small_trees(3 if tier == 'quick' else 4, V.LEAVES)
    small = [v for n in sorted(by) for v in by[n]]
    if tier == 'quick' and len(small) > 6000:
        small = small[:441 + 21] + rng.sample(small[462:], 5500)
    cases = []
    narrow = [(4, w, w, None, 1000, 0) for w in range(1, 13) if V.ribbon_ok(w, w)]
    for v in small:
        cases.append((v, narrow))
    n_rand = 1500 if tier == 'quick' else 20000
    for _ in range(n_rand):
        v = V.rand_value(rng, budget=rng.choice([5, 10, 20, 40, 60]))
        sorts = (0, 1) if sortable(v) else (0,)
        cases.append((v, settings_for(rng, v, tier, sorts)))
    # dicts whose keys are of different but mutually comparable types (int / float / bool, tuples of them), in both sort settings,
    # alone and nested: ascending key order must not depend on the keys' types
    num_pool = [3, 1.5, 2, -1, 0.25, 10 ** 20, 7.0, -2.5, 4, True, 0, float('inf'), float('-inf'), -10 ** 30]
    for _ in range(150 if tier == 'quick' else 1500):
        ks = rng.sample(num_pool, rng.choice([2, 3, 4, 5]))
        seen, keys = set(), []
        for k in ks:
            if k not in seen:
                seen.add(k)
                keys.append(k)
        d = {k: rng.choice([1, 'v', None]) for k in keys}
        if rng.random() < 0.3:
            d = {(k, rng.choice([1, 2.5])): 0 for k in keys}
        v = rng.choice([d, [d, 1], {'outer': d}, (d,)])
        cases.append((v, settings_for(rng, v, 'quick', (0, 1))[::3]))
    # long containers (a printer may take another path above some length): 64-200 elements of every leaf kind, incl. the floats without a
    # literal, nested one level, as list / tuple / set / frozenset / dict
    leaf_pool = [0, 7, -3, 2.5, -0.0, float('inf'), float('-inf'), float('nan'), True, None, 'a', 'two words', b'x', 10 ** 20, (1, 2), ()]
    for n in (64, 65, 100, 130, 200):
        for _ in range(2 if tier == 'quick' else 8):
            items = [rng.choice(leaf_pool) for _ in range(n)]
            hashables = [x for x in items if x == x]
            for v in (items, tuple(items), set(hashables + list(range(1000, 1000 + n))), frozenset(list(range(n)) + [float('inf')]),
                      {i: x for i, x in enumerate(items)}, [items[:3], items], {'k': tuple(items)}):
                cases.append((v, [(4, 79, 71, None, 1000, 0), (4, 30, 30, None, 1000, 0), (2, 200, 200, None, 1000, 0)]))
    # more elements than the DEFAULT max_seq_len (1000) with the limit switched off explicitly (max_seq_len=None is a value, not "unset"):
    # nothing may be dropped, at any nesting level
    for v in (list(range(1003)), tuple(range(1001)), {i: i % 7 for i in range(1002)}, set(range(1004)), [0, list(range(1001))], {'k': tuple(range(1001))},
              frozenset(range(1001))):
        cases.append((v, [(4, 79, 71, None, None, 0), (2, 300, 300, None, None, 0)]))
    # keys of several types that cannot be compared with each other: grouped by type name, value order within a group, insertion
    # order where neither applies (F23); every insertion order of a few such key sets
    mixed_pool = [3, 1, 'b', 'a', b'y', b'x', None, (2, 1), (1, 9), Ellipsis]
    for _ in range(150 if tier == 'quick' else 1500):
        keys = rng.sample(mixed_pool, rng.choice([2, 3, 4, 5, 6]))
        d = {k: rng.choice([0, 'v', [1]]) for k in keys}
        v = rng.choice([d, [d, 1], {'outer': d, 1: d}])
        if sortable(v):
            cases.append((v, settings_for(rng, v, 'quick', (0, 1))[::3]))
    # ties: two tuple keys that `<` cannot order ((1, None) < (1, 'a') raises, both are tuples) keep their insertion order - a stable sort
    for a, b in [((1, None), (1, 'a')), ((1, 'a'), (1, None)), ((0, 'x', None), (0, 'x', 2)), ((None,), ('s',)), (('k', b'b'), ('k', 'b')),
                 ((2, None), (1, 'a')), ((1, 'a'), (0, None)), (1.5, True), (True, 0.5), (b'x', 0.5)]:
        for v in ({a: 1, b: 2}, [{a: [1], b: 'v'}], {'outer': {a: 0, b: 0}}):
            if sortable(v):
                cases.append((v, [(4, 79, 71, None, 1000, 1), (4, 10, 10, None, 1000, 1), (4, 79, 71, None, 1000, 0)]))
    tot, nt, mism, fails = run_cases(cases, 'c01')
    stats = {'evaluations': tot, 'distinct_nontrivial': nt, 'small_trees': len(small), 'random_values': n_rand,
             'mismatches': len(mism),
             'samples': [{'value': repr(small[len(small) // 2])[:200], 'settings': 'width=ribbon=1..12'},
                         {'value': repr(cases[-1][0])[:300], 'settings': str(cases[-1][1][:3])}],
             'rule': 'value trees over int/float(inf,nan,-0.0)/bool/None/Ellipsis/str/bytes/list/tuple/set/frozenset/dict: all trees with few nodes over an adversarial leaf alphabet at width=ribbon=1..12, and seeded random trees at 10-18 widths x ribbons x indents x sort flags; SDoc stream (with annotations) and text compared with the model; non-trivial = values whose text differs between settings'}
    return stats, mism, fails


# ---------------------------------------------------------------------------------------------
# comments (C09)

COMMENT_TEXTS = ['a', 'a b', 'a\nb', 'a\n\nb', ' lead', 'trail ', "it's", '# x', '] x [', '\xe9t\xe9', 'a\rb', 'a\x0cb', 'x\n', '\n',
                 'one two three four five six seven eight nine ten eleven twelve', ') # (', '"q"', 'a  b\t c', ' ', ' z']


def add_comments(rng, v, p=0.3):
    t = type(v)
    if t is list:
        v = [add_comments(rng, x, p) for x in v]
    elif t is tuple:
        v = tuple(add_comments(rng, x, p) for x in v)
    elif t is dict:
        v = {(pp.comment(k, rng.choice(COMMENT_TEXTS)) if rng.random() < p / 2 else k): add_comments(rng, x, p) for k, x in v.items()}
    elif t in (set, frozenset):
        v = t((pp.comment(x, rng.choice(COMMENT_TEXTS)) if rng.random() < p / 2 else x) for x in v)
    if rng.random() < p:
        v = pp.comment(v, rng.choice(COMMENT_TEXTS))
    if rng.random() < p / 2:
        v = pp.trailing_comment(v, rng.choice(COMMENT_TEXTS))
    return v


def single_placements(v, text, wrap):
    """all copies of v with exactly one node wrapped"""
    out = [wrap(v, text)]
    t = type(v)
    if t in (list, tuple):
        for i, x in enumerate(v):
            for y in single_placements(x, text, wrap):
                out.append(t(list(v[:i]) + [y] + list(v[i + 1:])))
    elif t is dict:
        items = list(v.items())
        for i, (k, x) in enumerate(items):
            for y in single_placements(x, text, wrap):
                out.append(dict(items[:i] + [(k, y)] + items[i + 1:]))
            out.append(dict(items[:i] + [(wrap(k, text), x)] + items[i + 1:]))
    return out


def comments_section(tier, seed, mode='c09'):
    rng = random.Random(seed * 7 + 11)
    leaves = [0, 'a', None, 'ab cd ef', 1.5]
    by = V.small_trees(3 if tier == 'quick' else 4, leaves)
    small = [v for n in sorted(by) for v in by[n] if not isinstance(v, (set, frozenset))]
    cases = []
    narrow = [(4, w, w, None, 1000, 0) for w in (1, 4, 8, 12, 20, 40, 79) if V.ribbon_ok(w, w)]
    texts = ['c', 'a\n\nb', 'w1 w2 w3', "] # '"]
    for v in small:
        for text in (texts if tier == 'thorough' else [rng.choice(texts), 'c']):
            for cv in single_placements(v, text, pp.comment):
                cases.append((cv, narrow))
            if isinstance(v, (list, tuple, dict)):
                cases.append((pp.trailing_comment(v, text), narrow))
    if tier == 'quick' and len(cases) > 5000:
        cases = rng.sample(cases, 5000)
    # comments on instances of subclasses of the built-in containers (empty and non-empty), alone and nested
    import subclasses as S
    for base, vals in ((list, ([], [1, 'a'])), (tuple, ((), (1,), (1, 2))), (set, (set(), {1})), (dict, ({}, {'a': 1})),
                       (str, ('', 'ab cd')), (int, (7,))):
        for raw in vals:
            for text in ('c', 'w1 w2\nw3'):
                inst = S.make(rng, base, raw)
                for cv in (pp.comment(inst, text), pp.trailing_comment(inst, text), [pp.trailing_comment(inst, text), 1],
                           {'k': pp.comment(inst, text)}, pp.comment(pp.trailing_comment(inst, text), 'both')):
                    cases.append((cv, narrow))
    # comments on the arguments of call-style printed objects: the sole (hugged) list / dict / tuple argument, one of several, a keyword
    # argument; comment() and trailing_comment(); the annotated node itself and a child of it
    for text in ('why', 'w1 w2\nw3'):
        for payload in ([1, 2], {'a': 1}, (1, 2), 'scalar', [[3], 4]):
            for wrapf in (lambda x: pp.comment(x, text), lambda x: pp.trailing_comment(x, text)):
                arg = wrapf(payload)
                child = [wrapf(1), 2]
                for call in (S.CallObj(S.Ctor, (arg,), []), S.CallObj(S.Ctor, (arg, 1), []), S.CallObj(S.Ctor, (), [('kw', arg)]),
                             S.CallObj(S.some_function, (0,), [('kw', arg)]), S.CallObj(S.Ctor, (child,), []), [S.CallObj(S.Ctor, (arg,), []), 5]):
                    cases.append((call, narrow))
    # sorted dicts whose keys carry comments: the entry stays in its sorted place (F20)
    sorted_sets = [(4, w, w, None, 1000, 1) for w in (1, 20, 79)]
    for keys in ((2, 1), ('b', 'a', 'c'), (2.5, 1, 3), ((2, 1), (1, 2))):
        for text in ('c', 'w1\nw2'):
            for j in range(len(keys)):
                d = {}
                for i, k in enumerate(keys):
                    d[pp.comment(k, text) if i == j else k] = i
                cases.append((d, sorted_sets))
                cases.append(([d, {pp.trailing_comment(keys[0], text): pp.comment(1, text), keys[1]: 2}], sorted_sets))
    # ... and tuple keys whose *elements* carry comments, at any depth inside the tuple: ordered by the bare value (F22, formerly K8)
    for keys in (((2,), (1,)), ((2, 1), (1, 2), (1, 1)), ((1, (3, 2)), (1, (2, 9)), (0, (5, 5))), (('b', 1), ('a', 2))):
        for text in ('c', 'w1\nw2'):
            for j in range(len(keys)):
                for wrap_at in (0, 1, 2):
                    def wrapped(t, which=[0]):
                        out = []
                        for e in t:
                            if isinstance(e, tuple):
                                out.append(wrapped(e, which))
                            else:
                                out.append(pp.comment(e, text) if which[0] == wrap_at else e)
                                which[0] += 1
                        return tuple(out)
                    d = {}
                    for i, k in enumerate(keys):
                        d[wrapped(k, [0]) if i == j else k] = i
                    cases.append((d, sorted_sets))
    n_rand = 1200 if tier == 'quick' else 15000
    for _ in range(n_rand):
        v = add_comments(rng, V.rand_value(rng, budget=rng.choice([5, 10, 20, 40])), rng.choice([0.15, 0.3, 0.6]))
        plain = V.strip_comments(v)
        sorts = (0, 1) if sortable(plain) and not comment_inside_tuple_key(v) and rng.random() < 0.5 else (0,)
        cases.append((v, settings_for(rng, v, 'quick', sorts)[::2]))
    tot, nt, mism, fails = run_cases(cases, mode)
    stats = {'evaluations': tot, 'distinct_nontrivial': nt, 'placements': len(cases) - n_rand, 'random_values': n_rand,
             'mismatches': len(mism),
             'samples': [{'value': val_to_sx(cases[0][0])[:300]}, {'value': val_to_sx(cases[-1][0])[:400]}],
             'rule': 'comment()/trailing_comment() wrappers at every single node of every small tree and at random nodes of random trees, '
                     'texts incl. newlines, blank lines, quotes, #, brackets, leading/trailing blanks, form feed; oracle: eval == uncommented value, same ast across layouts, comment words preserved'}
    return stats, mism, fails


# ---------------------------------------------------------------------------------------------
# subclasses of built-in types (C08) and call-style printers (C17)

def oracle_eval_equal(value, text):
    import subclasses
    try:
        scope = {'subclasses': subclasses, 'float': float, 'set': set, 'frozenset': frozenset, 'Geometry': subclasses.Geometry,
                 '_verif_private': sys.modules['_verif_private']}
        if '.from' in text or '.maketrans' in text:
            # callees that are methods of built-in types (dict.fromkeys, ...): evaluated through proxies that give the printed call back
            for t in (dict, bytes, int, str, float):
                scope[t.__name__] = subclasses.BuiltinProxy(t)
        got = eval('(' + text + '\n)', scope)
    except Exception as e:
        return 'does not evaluate (%s)' % type(e).__name__
    return None if same_sub(got, value) else 'evaluates to a different value / type: %s' % (type(got).__name__,)


def same_sub(a, b):
    if type(a) is not type(b):
        return False
    for base in (list, tuple, set, frozenset, dict, str, bytes, int, float):
        if isinstance(a, base) and type(a) is not base and not isinstance(a, bool):
            a0, b0 = base(a), base(b)
            if base in (list, tuple):
                return len(a0) == len(b0) and all(same_sub(x, y) for x, y in zip(a0, b0))
            if base is dict:
                return len(a0) == len(b0) and all(same_sub(k1, k2) and same_sub(v1, v2) for (k1, v1), (k2, v2) in zip(a0.items(), b0.items()))
            if base in (set, frozenset):
                return len(a0) == len(b0) and all(any(same_sub(x, y) for y in b0) for x in a0)
            return V.same(a0, b0)
    if type(a) in (list, tuple):
        return len(a) == len(b) and all(same_sub(x, y) for x, y in zip(a, b))
    if type(a) is dict:
        return len(a) == len(b) and all(same_sub(k1, k2) and same_sub(v1, v2) for (k1, v1), (k2, v2) in zip(a.items(), b.items()))
    if type(a) in (set, frozenset):
        return len(a) == len(b) and all(any(same_sub(x, y) for y in b) for x in a)
    import subclasses
    if isinstance(a, subclasses.CallObj):
        # (`dict.fromkeys is dict.fromkeys` is False: built-in methods are bound afresh on every access, but compare equal)
        return (a.fn is b.fn or (a.fn == b.fn and type(a.fn) is type(len))) and same_sub(list(a.args), list(b.args)) and [k for k, _ in a.kwargs] == [k for k, _ in b.kwargs] \
            and all(same_sub(x, y) for (_, x), (_, y) in zip(a.kwargs, b.kwargs))
    return V.same(a, b)


def sub_chunk(args):
    cases = args
    drv = _driver()
    mism, fails = [], []
    n = nt = 0
    for (value, sets) in cases:
        sx = val_to_sx(value)
        pieces, texts = [], []
        for st in sets:
            p, text, kinds = impl_piece(value, st)
            pieces.append(p)
            texts.append(text)
            n += 1
        if len(set(texts)) > 1:
            nt += 1
        g = drv.ask('(pformat %s %s)' % (sx, ' '.join(settings_sx(*st) for st in sets)))
        if g != '(ok ' + ' '.join(pieces) + ')':
            for st, p in zip(sets, pieces):
                g1 = drv.ask('(pformat %s %s)' % (sx, settings_sx(*st)))
                if g1 != '(ok ' + p + ')':
                    mism.append({'value': repr(value)[:300], 'value_sx': sx[:2000], 'settings': st, 'impl': p[:1500], 'model': g1[:1500]})
                    break
        if len(fails) < 3:
            ref = None
            for st, text in zip(sets, texts):
                bad = None
                if text is None:
                    bad = 'pformat raises'
                elif st[3] is not None or (st[4] is not None and st[4] < 1000):
                    continue          # a depth / max_seq_len limit bites on purpose: these layouts are compared with the model only
                else:
                    plain_v = V.strip_comments(value)
                    bad = oracle_eval_equal(sorted_copy(plain_v) if st[5] else plain_v, text)
                    if not bad:
                        try:
                            a = ast_of(text)
                            if ref is None:
                                ref = {}
                            # one syntax tree per value of sort_dict_keys (sorting is content, not layout)
                            if st[5] not in ref:
                                ref[st[5]] = a
                            elif ref[st[5]] != a:
                                bad = 'syntax tree depends on layout'
                        except SyntaxError:
                            bad = 'not an expression'
                    if not bad:
                        # C03: every continuation line is indented by a multiple of `indent`
                        for line in text.split('\n')[1:]:
                            lead = len(line) - len(line.lstrip(' '))
                            if line.strip() and lead % st[0] != 0:
                                bad = 'a line is indented by %d columns, not a multiple of indent=%d: %r' % (lead, st[0], line[:80])
                                break
                if bad:
                    fails.append({'kind': 'subclass-or-call-does-not-reconstruct', 'why': bad, 'value': repr(value)[:300],
                                  'settings': st, 'text': (text or '')[:600]})
                    break
    return n, nt, mism, fails


def run_sub_cases(cases, chunk=25):
    chunks = [cases[i:i + chunk] for i in range(0, len(cases), chunk)]
    tot = nt = 0
    mism, fails = [], []
    with mp.Pool(min(NCPU, max(1, len(chunks)))) as pool:
        for n, t, mm, ff in pool.imap_unordered(sub_chunk, chunks):
            tot += n
            nt += t
            mism.extend(mm)
            fails.extend(ff)
    return tot, nt, mism, fails


def subclass_values(rng, n):
    import subclasses as S
    out = []
    bases = [(list, lambda: [rng.choice([1, 'a', None]) for _ in range(rng.choice([0, 1, 2, 4]))]),
             (tuple, lambda: tuple(rng.choice([1, 'a', 2.5]) for _ in range(rng.choice([0, 1, 2, 3])))),
             (set, lambda: set(rng.sample([1, 2, 3, 'x', 'yy'], rng.choice([0, 1, 2, 3])))),
             (frozenset, lambda: frozenset(rng.sample([1, 2, 3, 'x'], rng.choice([0, 1, 2])))),
             (dict, lambda: {k: rng.choice([1, 'v', [1]]) for k in rng.sample(['a', 'b', 3, 4], rng.choice([0, 1, 2, 3]))}),
             (str, lambda: rng.choice(['', 'a', "it's", 'a' * 30, 'word ' * 9, 'x\ny', '\xe9'])),
             (bytes, lambda: rng.choice([b'', b'ab', b'\x00\xff' * 8, b'a b ' * 7])),
             (int, lambda: rng.choice([0, -5, 10 ** 20])),
             (float, lambda: rng.choice([0.5, -0.0, float('inf'), float('-inf'), 1e300]))]
    for _ in range(n):
        base, gen = rng.choice(bases)
        v = S.make(rng, base, gen())
        r = rng.random()
        if r < 0.25:
            v = [v, 1]
        elif r < 0.4:
            v = {'key': v}
        elif r < 0.5:
            v = (v,)
        elif r < 0.6:
            v = {'kkkkkkkkkkkkkkkkkkkkkkkkkkkkkkkkkkkkkkkkkkkkkkkkkk': v, 'b': [v]}
        elif r < 0.65:
            v = S.CallObj(S.Ctor, (v,), [('kw', v)])
        elif r < 0.85 and base in (str, bytes, int, float, tuple, frozenset):
            # hashable instances in key / element position (a container's fast path must not lose the class)
            try:
                hash(v)
                k = rng.randrange(6)
                v = [{v: 1}, {v: [v], 'z': 2}, {v}, frozenset([v]), [(1, v)], {(v,): v}][k]
            except TypeError:
                pass
        out.append(v)
    out.append(S.Color.RED)
    out.append([S.Color.BIG])
    # instances long enough for the long-sequence shortcut of sequence_of_docs (3 * n > 150: always broken) and for max_seq_len's neighbourhood
    # of it: the class must survive whichever path builds the brackets
    for nn in (50, 51, 60, 200):
        out.append(S.make(rng, list, [rng.randrange(9) for _ in range(nn)]))
        out.append(S.make(rng, tuple, tuple(range(nn))))
        out.append(S.make(rng, set, set(range(nn))))
        out.append([S.make(rng, frozenset, frozenset(range(nn))), 1])
        out.append({'k': S.make(rng, dict, {i: i for i in range(nn)})})
    return out


def twin_classes_check():
    """different classes with one module and qualified name (a cell run again in a notebook, a class factory) and different built-in
    bases, printed one after the other in one interpreter: each is printed as an instance of ITS class - through the printer of its own
    base - whatever was printed before.  Reference: the text of an instance of a uniquely named class of the same base, renamed."""
    bad = []
    samples = {list: [1, 'a'], tuple: (1, 2), dict: {'k': 1}, str: 'abc', bytes: b'xy', int: 7, float: 2.5, set: {1}, frozenset: frozenset([2])}

    def mk(base, name):
        c = type(name, (base,), {})
        c.__module__ = 'subclasses'
        c.__qualname__ = name
        return c
    uniq = {b: mk(b, 'Uniq' + b.__name__.capitalize()) for b in samples}
    with warnings.catch_warnings():
        warnings.simplefilter('ignore')
        want = {b: pp.pformat(uniq[b](samples[b])).replace('Uniq' + b.__name__.capitalize(), 'Twin') for b in samples}
    order = list(samples)
    for i, b1 in enumerate(order):
        for b2 in order[i + 1:]:
            c1, c2 = mk(b1, 'Twin'), mk(b2, 'Twin')
            seq = [(c1, b1), (c2, b2), (c1, b1), (c2, b2)]
            for (c, b) in seq:
                with warnings.catch_warnings(record=True) as w:
                    warnings.simplefilter('always')
                    try:
                        got = pp.pformat(c(samples[b]))
                    except Exception as e:
                        got = 'EXC:' + type(e).__name__
                if got != want[b] or w:
                    bad.append({'kind': 'subclass-or-call-does-not-reconstruct', 'why': 'two classes named subclasses.Twin (bases %s and %s) printed in turn: the %s instance is printed as %r, expected %r%s' % (
                        b1.__name__, b2.__name__, b.__name__, got[:120], want[b], ' (with a warning)' if w else ''), 'value': 'Twin(%r)' % (samples[b],), 'settings': 'defaults'})
                    break
            if len(bad) >= 3:
                return bad
    return bad


def subclasses_section(tier, seed):
    rng = random.Random(seed * 13 + 1)
    vals = subclass_values(rng, 1500 if tier == 'quick' else 12000)
    cases = [(v, settings_for(rng, v, tier)) for v in vals]
    # subclass instances as dict keys under sort_dict_keys=True (the keys pass through the sort key and back): one key, two keys of
    # the same subclass family (comparable by value), a tuple holding an instance, a comment on the key
    import subclasses as S
    sorted_sets = [(4, w, w, None, 1000, 1) for w in (1, 20, 79)] + [(2, 40, 30, None, 1000, 1)]
    for base, a, b in ((tuple, (1, 5), (1, 2)), (str, 'zed', 'abc'), (int, 7, 3), (float, 2.5, 0.5), (bytes, b'zz', b'aa')):
        for _ in range(4):
            x, y = S.make(rng, base, a), S.make(rng, base, b)
            for v in ({x: 'old'}, {x: 1, y: 2}, [{y: [x]}], {(x, 1): 0, (y, 2): 1}, {pp.comment(x, 'c'): 1, y: 2}, {'k': {x: {y: 0}}}):
                cases.append((v, sorted_sets))
    tot, nt, mism, fails = run_sub_cases(cases)
    fails = list(fails) + twin_classes_check()
    stats = {'evaluations': tot, 'distinct_nontrivial': nt, 'values': len(vals), 'mismatches': len(mism), 'same_named_class_pairs': 36,
             'samples': [{'value': val_to_sx(vals[0])[:300]}, {'value': val_to_sx(vals[7])[:300]}],
             'rule': 'instances of 36 generated subclasses (9 bases x {plain, __repr__, __str__, both overridden}) + IntEnum, '
                     'alone and nested (list, dict value, dict key, set / frozenset element, tuple inside a key, long dict key line, 1-tuple, call argument) x widths x ribbons x indents; '
                     'oracle: eval with the defining module in scope gives the same class and equal base value'}
    return stats, mism, fails


def rand_call(rng, depth=0):
    import subclasses as S
    nargs = rng.choice([0, 1, 1, 2, 3])
    nkw = rng.choice([0, 0, 1, 2])
    def arg():
        if depth < 2 and rng.random() < 0.2:
            return rand_call(rng, depth + 1)
        v = V.rand_value(rng, budget=rng.choice([1, 3, 8]))
        if rng.random() < 0.15:
            v = pp.comment(v, rng.choice(COMMENT_TEXTS))
        return v
    args = tuple(arg() for _ in range(nargs))
    kwargs = [(rng.choice(['a', 'b', 'long_keyword_name', 'x1']) + str(i), arg()) for i in range(nkw)]
    return S.CallObj(rng.choice([S.Ctor, S.some_function, S.Ctor, S.some_function, S.Ctor] + S.BUILTIN_METHODS), args, kwargs)


def calls_section(tier, seed):
    rng = random.Random(seed * 17 + 5)
    vals = [rand_call(rng) for _ in range(1200 if tier == 'quick' else 10000)]
    vals += [[c] for c in vals[:100]] + [{'k': c} for c in vals[100:200]]
    # arguments that print as shared constant documents (None, ..., True, False) or are one and the same object, repeated and in the last place
    import itertools as _it
    import subclasses as S
    shared_list = [1, 2]
    for n in (2, 3):
        for combo in _it.product([None, Ellipsis, True, 0, shared_list], repeat=n):
            if len(set(map(id, combo))) < n:
                vals.append(S.CallObj(S.Ctor, combo, []))
                vals.append(S.CallObj(S.some_function, combo[:-1], [('k', combo[-1])]))
    # sort_dict_keys is a setting about dicts, never about the keyword arguments of a call - also when a printer hands them over as a plain dict
    # (pretty_call(ctx, fn, **kwargs), shape 1 of subclasses._pretty_callobj): every third call is also printed with sort_dict_keys=True
    cases = [(v, settings_for(rng, v, tier, sorts=(0, 1) if (j % 3 == 0 and sortable_deep(v)) else (0,))) for j, v in enumerate(vals)]
    # arguments are printed with the caller's settings: containers longer than the default limit under max_seq_len=None (the call must
    # still evaluate back), and short limits (compared with the model, which truncates every argument like a value printed on its own)
    import subclasses as S
    big = list(range(1200))
    for v in (S.CallObj(S.Ctor, ('b', big), []), S.CallObj(S.Ctor, (), [('items', big), ('n', 1)]), S.CallObj(S.some_function, (1, {i: i for i in range(1100)}), [])):
        cases.append((v, [(4, 79, 71, None, None, 0)]))
    for v in vals[200:260]:
        cases.append((v, [(4, 79, 71, None, 2, 0), (4, 30, 30, 2, 3, 0)]))
    # values containing comments cannot be compared by eval of commented CallObj args directly: strip for the oracle
    tot, nt, mism, fails = run_sub_cases([(v, s) for v, s in cases])
    stats = {'evaluations': tot, 'distinct_nontrivial': nt, 'values': len(vals), 'mismatches': len(mism),
             'samples': [{'value': val_to_sx(vals[0])[:300]}, {'value': val_to_sx(vals[3])[:300]}],
             'rule': 'objects printed through pretty_call_alt with 0-3 positional and 0-2 keyword arguments (built-in values, nested calls, commented arguments), '
                     'alone and nested; oracle: eval rebuilds the same callable, positional arguments in order and keywords in the order given'}
    return stats, mism, fails


# ---------------------------------------------------------------------------------------------
# max_seq_len (C10) and depth (C11)

def truncate_py(v, n):
    """what evaluation of the max_seq_len=n output must yield"""
    t = type(v)
    if t in (list, tuple):
        xs = list(v) if len(v) == 1 else list(v)[:n]
        return t(truncate_py(x, n) for x in xs)
    if t in (set, frozenset):
        xs = list(v) if len(v) == 1 else list(v)[:n]
        return t(truncate_py(x, n) for x in xs)
    if t is dict:
        return {truncate_py(k, n): truncate_py(x, n) for k, x in list(v.items())[:n]}
    return v


def expected_truncations(v, n):
    """multiset of k for every container longer than n (that is reached in the truncated output)"""
    out = []
    t = type(v)
    if t in (list, tuple, set, frozenset):
        if len(v) > n:
            out.append(len(v) - n)
        xs = list(v) if len(v) == 1 else list(v)[:n]
        for x in xs:
            out.extend(expected_truncations(x, n))
    elif t is dict:
        if len(v) > n:
            out.append(len(v) - n)
        for k, x in list(v.items())[:n]:
            out.extend(expected_truncations(k, n))
            out.extend(expected_truncations(x, n))
    return out


def max_len(v):
    t = type(v)
    if t in (list, tuple, set, frozenset):
        return max([len(v)] + [max_len(x) for x in v])
    if t is dict:
        return max([len(v)] + [max(max_len(k), max_len(x)) for k, x in v.items()])
    if hasattr(v, '__verif_call__'):
        return max([0] + [max_len(x) for x in v.args] + [max_len(x) for _, x in v.kwargs])
    return 0


import re as _re
_TRUNC = _re.compile(r'\.\.\.and (\d+) more elements')


class LongList(list):
    """marker: replaced by list(range(default max_seq_len + 5)) inside the worker (keeps the task small)"""


def trunc_chunk(args):
    cases = args
    drv = _driver()
    mism, fails = [], []
    n = nt = 0
    for (value, widths) in cases:
        if type(value) is LongList:
            value = list(range(pp.get_default_config()['max_seq_len'] + 5))
            sx = val_to_sx(value)
            ml = len(value)
            ns = [3, ml - 1, ml, ml + 1, None]
        else:
            sx = val_to_sx(value)
            ml = max_len(value)
            ns = list(range(1, ml + 2)) + [None]
        sets = [(4, w, w, None, N, 0) for w in widths for N in ns]
        pieces, texts = [], []
        for st in sets:
            p, text, kinds = impl_piece(value, st)
            pieces.append(p)
            texts.append(text)
            n += 1
        if len(set(texts)) > 1:
            nt += 1
        g = drv.ask('(pformat %s %s)' % (sx, ' '.join(settings_sx(*st) for st in sets)))
        if g != '(ok ' + ' '.join(pieces) + ')':
            for st, p in zip(sets, pieces):
                g1 = drv.ask('(pformat %s %s)' % (sx, settings_sx(*st)))
                if g1 != '(ok ' + p + ')':
                    mism.append({'value': repr(value)[:300], 'value_sx': sx[:2000], 'settings': st, 'impl': p[:1200], 'model': g1[:1200]})
                    break
        if len(fails) < 3:
            by_w = {}
            for st, text in zip(sets, texts):
                N = st[4]
                bad = None
                if text is None or text.startswith('(warn'):
                    bad = 'raises or falls back to repr'
                else:
                    want = value if N is None else truncate_py(value, N)
                    b = oracle_c01(want, text)
                    if b:
                        bad = 'does not evaluate to the truncated value: ' + b
                    else:
                        words = comment_words(text) or []
                        got = sorted(int(m) for m in _TRUNC.findall(' '.join(words)))
                        exp = [] if N is None else sorted(expected_truncations(value, N))
                        if got != exp:
                            bad = 'truncation comments %s, expected %s' % (got, exp)
                    if N is None:
                        by_w[st[1]] = text
                    elif N == ml + 1 and st[1] in by_w and False:
                        pass
                if not bad and N == ml + 1:
                    # equals the output without a limit
                    none_text = [t for s2, t in zip(sets, texts) if s2[1] == st[1] and s2[4] is None][0]
                    if none_text != text:
                        bad = 'max_seq_len=None differs from a limit larger than every container'
                if bad:
                    fails.append({'kind': 'max-seq-len', 'why': bad, 'value': repr(value)[:300], 'settings': st, 'text': (text or '')[:500]})
                    break
    return n, nt, mism, fails


def limit_via_defaults_check(kind):
    """the limit (`max_seq_len` or `depth`) given through set_default_config instead of as an argument, changed several times in one
    interpreter - to a number, back to None, to another number - with prints in between: every print without the argument must equal
    the print with the limit in force given explicitly"""
    PKG = sys.modules['prettyprinter']
    original = dict(PKG._default_config)
    bad = []
    vals = [list(range(8)), {'a': [1, 2, 3, [4, [5, 6]]], 'b': (1, 2, 3, 4)}, [[1, [2, [3, [4]]]], {1, 2, 3, 4, 5}]]
    seqs = [[2, None, 3], [None, 1, 1000 if kind == 'max_seq_len' else 5, 2], [3, 3, None, None, 1]]
    try:
        for v in vals:
            for seq in seqs:
                PKG._default_config = dict(original)
                with warnings.catch_warnings():
                    warnings.simplefilter('ignore')
                    pp.pformat(v)
                    pp.pformat(v, width=30)
                    for step, lim in enumerate(seq):
                        pp.set_default_config(**{kind: lim})
                        if step % 2 == 1:
                            # another setting is changed afterwards: the limit must stay what it was set to
                            pp.set_default_config(sort_dict_keys=False)
                            pp.set_default_config(width=79)
                        for w in (79, 30):
                            try:
                                got = pp.pformat(v, width=w)
                                want = pp.pformat(v, width=w, **{kind: lim})
                            except Exception as e:
                                got, want = 'EXC:' + type(e).__name__, None
                            if got != want:
                                bad.append({'kind': 'limit-through-defaults-not-in-force', 'why': 'after set_default_config(%s=%r) (step %d of %r) pformat(v, width=%d) differs from pformat(v, width=%d, %s=%r)' % (
                                    kind, lim, step + 1, seq, w, w, kind, lim), 'value': repr(v), 'text': (got or '')[:300], 'expected': (want or '')[:300]})
                                break
                        if bad and bad[-1]['value'] == repr(v):
                            break
                if len(bad) >= 3:
                    return bad
    finally:
        PKG._default_config = dict(original)
    return bad


def truncation_section(tier, seed):
    rng = random.Random(seed * 19 + 2)
    vals = []
    for _ in range(700 if tier == 'quick' else 6000):
        v = V.rand_value(rng, depth=2, budget=rng.choice([6, 12, 30]))
        if isinstance(v, (list, tuple, set, frozenset, dict)):
            vals.append(v)
    vals += [[1, 2, 3], (1, 2), {1, 2, 3}, frozenset([1, 2]), {'a': 1, 'b': 2, 'c': 3}, [[1, 2, 3], [4, 5]], {'a': [1, 2, 3]}, [(1,), [2]], [],
             {(1, 2, 3): [1, 2]}, list(range(12))]
    cases = [(v, rng.sample([1, 6, 10, 20, 40, 79], 2)) for v in vals]
    # longer than the *default* limit: None must still disable truncation
    cases.append((LongList(), [79]))
    chunks = [cases[i:i + 20] for i in range(0, len(cases), 20)]
    tot = nt = 0
    mism, fails = [], []
    with mp.Pool(min(NCPU, max(1, len(chunks)))) as pool:
        for n, t, mm, ff in pool.imap_unordered(trunc_chunk, chunks):
            tot += n
            nt += t
            mism.extend(mm)
            fails.extend(ff)
    fails = list(fails) + limit_via_defaults_check('max_seq_len')
    stats = {'evaluations': tot, 'distinct_nontrivial': nt, 'values': len(vals), 'mismatches': len(mism), 'limit_given_through_set_default_config': True,
             'samples': [{'value': repr(vals[0])[:200], 'max_seq_len': '1 .. maxlen+1, None'}],
             'rule': 'container trees x max_seq_len in {1 .. longest container + 1, None} x 2 widths; oracle: eval == first-N truncation at every level, '
                     'one "...and k more elements" comment per truncated container with k = len - N, None == larger-than-everything'}
    return stats, mism, fails


def height(v):
    t = type(v)
    if t in (list, tuple, set, frozenset):
        return 1 + max([0] + [height(x) for x in v])
    if t is dict:
        return 1 + max([0] + [max(height(k), height(x)) for k, x in v.items()])
    if _sub_base(v) in (list, tuple):
        return 1 + max([0] + [height(x) for x in v])
    if _sub_base(v) is dict:
        return 1 + max([0] + [max(height(k), height(x)) for k, x in v.items()])
    if hasattr(v, '__verif_call__'):
        if _hugged(v):
            return height(v.args[0])
        return 1 + max([0] + [height(x) for x in v.args] + [height(x) for _, x in v.kwargs])
    return 0


def _sub_base(v):
    """the built-in base of an instance of one of the generated subclasses (subclasses.py) that the depth reference knows: list / tuple /
    dict containers and int / str leaves; None for everything else"""
    t = type(v)
    if getattr(t, '__module__', None) not in ('subclasses', '__main__', '_verif_private') or t is bool:
        return None
    for b in (list, tuple, dict, int, str):
        if isinstance(v, b) and t is not b:
            return b
    return None


def _sub_name(v):
    t = type(v)
    return t.__qualname__ if t.__module__ == '__main__' else '%s.%s' % (t.__module__, t.__qualname__)


def _hugged(c):
    """a call whose sole argument is a list / dict / tuple literal is written `f([...])`: call and literal are ONE nesting level (the
    same rule that makes `Sub([...])` one container for a subclass instance)"""
    return not c.kwargs and len(c.args) == 1 and type(c.args[0]) in (list, dict, tuple)


def leaves_with_level(v, k=0, out=None):
    if out is None:
        out = []
    t = type(v)
    if t in (list, tuple, set, frozenset):
        for x in v:
            leaves_with_level(x, k + 1, out)
    elif t is dict:
        for key, x in v.items():
            if isinstance(key, (str, bytes)):
                out.append((key, k + 1, True))
            else:
                leaves_with_level(key, k + 1, out)
            leaves_with_level(x, k + 1, out)
    elif _sub_base(v) in (list, tuple):
        for x in v:
            leaves_with_level(x, k + 1, out)
    elif _sub_base(v) is dict:
        for key, x in v.items():
            if isinstance(key, (str, bytes)):
                out.append((key, k + 1, True))
            else:
                leaves_with_level(key, k + 1, out)
            leaves_with_level(x, k + 1, out)
    elif _sub_base(v) in (int, str):
        out.append((int(v) if _sub_base(v) is int else str.__str__(v), k, False))        # identified by the underlying value
    elif hasattr(v, '__verif_call__'):
        # a call-style printed object: positional and keyword arguments alike sit one level below the call
        if _hugged(v):
            leaves_with_level(v.args[0], k, out)
            return out
        for x in v.args:
            leaves_with_level(x, k + 1, out)
        for _, x in v.kwargs:
            leaves_with_level(x, k + 1, out)
    else:
        out.append((v, k, False))
    return out


def unique_tree(rng, depth=0):
    """container tree with uniquely identifiable leaves"""
    counter = [0]
    keyc = [0]

    def key():
        keyc[0] += 1
        return 'k%d' % keyc[0] if rng.random() < 0.75 else b'kb%d' % keyc[0]

    def leaf():
        counter[0] += 1
        r = rng.random()
        if r < 0.5:
            return 1000 + counter[0]
        if r < 0.8:
            return 's%d' % counter[0]
        if r < 0.9:
            return 1000.5 + counter[0]
        if r < 0.93:
            return rng.choice(['', b''])          # empty literals are leaves like any other: str(...) / bytes(...) at the cut
        if r < 0.96:
            import subclasses as S
            return S.make(rng, int, 5000 + counter[0]) if rng.random() < 0.6 else S.make(rng, str, 'u%d' % counter[0])
        return rng.choice([None, True, False, Ellipsis])

    def go(d):
        if d > 4 or rng.random() < 0.3:
            return leaf()
        n = rng.choice([0, 1, 2, 3])
        kind = rng.choice(['list', 'tuple', 'dict', 'set', 'frozenset', 'list', 'tuple', 'dict', 'set', 'frozenset', 'call'])
        if kind == 'call':
            import subclasses as S
            m = rng.choice([0, 1, 2])
            return S.CallObj(rng.choice([S.Ctor, S.some_function]), [go(d + 1) for _ in range(n - min(m, n))],
                             [('kw%d' % i, go(d + 1)) for i in range(min(m, n))])
        if kind == 'list':
            return [go(d + 1) for _ in range(n)]
        if kind == 'frozenset':
            return frozenset({leaf() for _ in range(n)} - {None, True, False, Ellipsis})
        if kind == 'tuple':
            return tuple(go(d + 1) for _ in range(n))
        if kind == 'set':
            return {leaf() for _ in range(n)} - {None, True, False, Ellipsis} or set()
        return {key(): go(d + 1) for i in range(n)}
    return go(depth)


_PRUNE_MSL = [None]


def _take_msl(xs):
    """the first max_seq_len elements in iteration order (the reference for depth x max_seq_len)"""
    xs = list(xs)
    return xs if _PRUNE_MSL[0] is None else xs[:_PRUNE_MSL[0]]


def pruned_src(v, d, k=0, empties=()):
    """reference rendering (layout-free source text) of `v` with depth=d, written from the property statement: an element nested
    inside k containers is printed in full if k < d, otherwise replaced by an ellipsis placeholder of its own type.
    Listed exceptions: None / bool / Ellipsis are always printed in full (K2), str / bytes dict keys are printed with the dict's
    own level (K5).  An empty container at the cut hides nothing: both its full form and its placeholder are accepted
    (`empties` = the types for which the placeholder form is expected)."""
    t = type(v)
    if v is None or t is bool or v is Ellipsis:
        return repr(v) if v is not Ellipsis else '...'
    cut = k >= d
    if t in (list, tuple, set, frozenset, dict) and len(v) == 0 and not (cut and t in empties):
        return {list: '[]', tuple: '()', set: 'set()', frozenset: 'frozenset()', dict: '{}'}[t]
    if t is list:
        return '[...]' if cut else '[' + ', '.join(pruned_src(x, d, k + 1, empties) for x in _take_msl(v)) + ']'
    if t is tuple:
        return '(...)' if cut else '(' + ', '.join(pruned_src(x, d, k + 1, empties) for x in _take_msl(v)) + (',)' if len(_take_msl(v)) == 1 else ')')
    if t is set:
        return 'set(...)' if cut else '{' + ', '.join(pruned_src(x, d, k + 1, empties) for x in _take_msl(v)) + '}'
    if t is frozenset:
        return 'frozenset(...)' if cut else 'frozenset([' + ', '.join(pruned_src(x, d, k + 1, empties) for x in _take_msl(v)) + '])'
    if t is dict:
        if cut:
            return '{...}'
        return '{' + ', '.join((repr(a) if isinstance(a, (str, bytes)) else pruned_src(a, d, k + 1, empties)) + ': ' + pruned_src(b, d, k + 1, empties)
                               for a, b in _take_msl(list(v.items()))) + '}'
    sb = _sub_base(v)
    if sb is not None:
        # an instance of a subclass of a built-in type is `Cls(<the underlying literal>)`: wrapper and literal are ONE level
        name = _sub_name(v)
        if cut:
            # a scalar subclass is replaced as a whole; a container subclass keeps its wrapper around the literal's placeholder
            return name + {int: '(...)', str: '(...)', list: '([...])', tuple: '((...))', dict: '({...})'}[sb]
        if sb is int:
            return '%s(%s)' % (name, int.__repr__(v))
        if sb is str:
            return '%s(%s)' % (name, str.__repr__(v))
        if len(v) == 0:
            return name + '()'
        return '%s(%s)' % (name, pruned_src(sb(v), d, k, empties))
    if hasattr(v, '__verif_call__'):
        name = '%s.%s' % (v.fn.__module__, v.fn.__qualname__)
        if cut:
            return name + '(...)'
        if _hugged(v):
            return name + '(' + pruned_src(v.args[0], d, k, empties) + ')'
        return name + '(' + ', '.join([pruned_src(x, d, k + 1, empties) for x in v.args] +
                                      ['%s=%s' % (kw, pruned_src(x, d, k + 1, empties)) for kw, x in v.kwargs]) + ')'
    if cut:
        return '%s(...)' % t.__name__
    return repr(v)


def depth_chunk(args):
    cases = args
    drv = _driver()
    mism, fails = [], []
    n = nt = 0
    for (value, widths) in cases:
        sx = val_to_sx(value)
        h = height(value)
        ds = list(range(0, h + 3)) + [None]
        sets = [(4, w, w, d, 1000, 0) for w in widths for d in ds]
        pieces, texts = [], []
        for st in sets:
            p, text, kinds = impl_piece(value, st)
            pieces.append(p)
            texts.append(text)
            n += 1
        if len(set(texts)) > 1:
            nt += 1
        g = drv.ask('(pformat %s %s)' % (sx, ' '.join(settings_sx(*st) for st in sets)))
        if g != '(ok ' + ' '.join(pieces) + ')':
            for st, p in zip(sets, pieces):
                g1 = drv.ask('(pformat %s %s)' % (sx, settings_sx(*st)))
                if g1 != '(ok ' + p + ')':
                    mism.append({'value': repr(value)[:300], 'value_sx': sx[:2000], 'settings': st, 'impl': p[:1200], 'model': g1[:1200]})
                    break
        # depth x max_seq_len: containers longer than max_seq_len above, at and below the cut; the output must be (up to layout and
        # comments) the value cut at `depth` with every shown container reduced to its first max_seq_len elements
        if len(fails) < 3 and max_len(value) > 1:
            import itertools
            for msl in (1, 2):
                for d in ds[:-1]:
                    st = (4, widths[0], widths[0], d, msl, 0)
                    p, text, kinds = impl_piece(value, st)
                    n += 1
                    g1 = drv.ask('(pformat %s %s)' % (sx, settings_sx(*st)))
                    if g1 != '(ok ' + p + ')' and len(mism) < 3:
                        mism.append({'value': repr(value)[:300], 'value_sx': sx[:2000], 'settings': st, 'impl': p[:1200], 'model': g1[:1200]})
                    bad = None
                    if text is None or text.startswith('(warn'):
                        bad = 'raises or falls back to repr'
                    else:
                        try:
                            got = ast_of(text)
                        except SyntaxError:
                            got = None
                        ok = False
                        _PRUNE_MSL[0] = msl
                        try:
                            kinds5 = (dict, list, tuple, set, frozenset)
                            for r in range(6):
                                for emp in itertools.combinations(kinds5, r):
                                    if got == ast.dump(ast.parse('(' + pruned_src(value, d, 0, emp) + '\n)', mode='eval')):
                                        ok = True
                                        break
                                if ok:
                                    break
                            if not ok:
                                bad = 'output is not the value cut at depth %d and truncated to %d elements: expected (up to layout) %s' % (d, msl, pruned_src(value, d)[:300])
                        finally:
                            _PRUNE_MSL[0] = None
                    if bad:
                        fails.append({'kind': 'depth', 'why': bad, 'value': repr(value)[:300], 'settings': st, 'text': (text or '')[:500]})
                        break
                if fails:
                    break
        if len(fails) < 3:
            lv = leaves_with_level(value)
            for st, text in zip(sets, texts):
                d = st[3]
                bad = None
                kind = 'depth'
                if text is None or text.startswith('(warn'):
                    bad = 'raises or falls back to repr'
                else:
                    none_text = [t for s2, t in zip(sets, texts) if s2[1] == st[1] and s2[3] is None][0]
                    if d is None or d > h:
                        if text != none_text:
                            bad = 'depth=%r > height %d differs from depth=None' % (d, h)
                    else:
                        known_bad = None
                        for leaf, k, is_str_key in lv:
                            token = repr(leaf) if not isinstance(leaf, str) else "'%s'" % leaf
                            if leaf is Ellipsis or (isinstance(leaf, (str, bytes)) and len(leaf) == 0):
                                continue          # not identifiable by its text: judged by the comparison with the reference pruning below
                            shown = _re.search(r'(?<![\w.])%s(?![\w.])' % _re.escape(token), text) is not None
                            if k < d and not shown:
                                bad = 'leaf %s at level %d < depth %d is missing' % (token, k, d)
                                break
                            elif k >= d and shown:
                                if is_str_key and k == d:
                                    known_bad = ('depth-str-key-printed-in-full', 'str dict key %s at level %d >= depth %d is printed in full' % (token, k, d))
                                elif leaf is None or isinstance(leaf, bool):
                                    known_bad = ('depth-leaf-printed-in-full', 'leaf %s at level %d >= depth %d is printed in full' % (token, k, d))
                                else:
                                    bad = 'leaf %s at level %d >= depth %d is printed in full' % (token, k, d)
                                    break
                        if not bad:
                            # the whole output against the reference pruning (placeholders of the right type, everything above the cut as is)
                            import itertools
                            try:
                                got = ast_of(text)
                            except SyntaxError:
                                got = None
                            ok = False
                            kinds5 = (dict, list, tuple, set, frozenset)
                            for r in range(6):
                                for emp in itertools.combinations(kinds5, r):
                                    if got == ast.dump(ast.parse('(' + pruned_src(value, d, 0, emp) + '\n)', mode='eval')):
                                        ok = True
                                        break
                                if ok:
                                    break
                            if not ok:
                                bad = 'output is not the depth-pruned value: expected (up to layout) %s' % pruned_src(value, d)[:300]
                        if not bad and known_bad and not any(f['value'] == repr(value)[:300] for f in fails):
                            fails.append({'kind': known_bad[0], 'why': known_bad[1], 'value': repr(value)[:300], 'settings': st, 'text': text[:500]})
                if bad:
                    fails.append({'kind': kind, 'why': bad, 'value': repr(value)[:300], 'settings': st, 'text': (text or '')[:500]})
                    break
    return n, nt, mism, fails


def sole_subclass_argument_check():
    """a call-style printed value whose only argument is an instance of a SUBCLASS of list / dict / tuple (ChainMap with one OrderedDict /
    defaultdict / Counter map, a call object holding a subclass instance): the argument sits one level below the call, exactly as it
    does as the only element of a list - at every depth its text inside the call equals its text inside a list"""
    import collections
    import subclasses as S
    bad = []
    rng = random.Random(7)
    maps = [collections.OrderedDict([(1, [2, [3, [4]]]), (5, 6)]), collections.defaultdict(list, {1: [2, [3]]}), collections.Counter({'a': 2}),
            S.make(rng, dict, {'k': [1, [2]]}), S.make(rng, list, [1, [2, [3]]]), S.make(rng, tuple, (1, (2,)))]
    for m in maps:
        wrappers = [('subclasses.Ctor', S.CallObj(S.Ctor, [m], []))]
        if isinstance(m, dict):
            wrappers.append(('collections.ChainMap', collections.ChainMap(m)))
        for name, w in wrappers:
            for d in (1, 2, 3, 4, None):
                with warnings.catch_warnings():
                    warnings.simplefilter('ignore')
                    a = pp.pformat(w, depth=d, width=100000, ribbon_width=100000)
                    b = pp.pformat([m], depth=d, width=100000, ribbon_width=100000)
                if a != '%s(%s)' % (name, b[1:-1]):
                    bad.append({'kind': 'depth', 'why': 'the sole argument of %s(...) is cut at another level than the sole element of a list: %r vs %r' % (name, a[:150], b[:150]),
                                'value': repr(w)[:200], 'settings': (4, 100000, 100000, d, 1000, 0), 'text': a[:300]})
                    break
            if len(bad) >= 3:
                return bad
    return bad


def depth_section(tier, seed):
    rng = random.Random(seed * 23 + 9)
    vals = [unique_tree(rng) for _ in range(900 if tier == 'quick' else 8000)]
    vals = [v for v in vals if isinstance(v, (list, tuple, dict, set, frozenset)) or hasattr(v, '__verif_call__')]
    vals = [v for v in vals if _sub_base(v) not in (int, str)]
    vals += [frozenset([101, 102]), [frozenset([103]), 104], {'k1': frozenset([105, 's6'])}, (frozenset(),)]
    cases = [(v, rng.sample([1, 8, 20, 40, 79], 2)) for v in vals]
    chunks = [cases[i:i + 20] for i in range(0, len(cases), 20)]
    tot = nt = 0
    mism, fails = [], []
    with mp.Pool(min(NCPU, max(1, len(chunks)))) as pool:
        for n, t, mm, ff in pool.imap_unordered(depth_chunk, chunks):
            tot += n
            nt += t
            mism.extend(mm)
            fails.extend(ff)
    fails = list(fails) + limit_via_defaults_check('depth') + sole_subclass_argument_check()
    stats = {'evaluations': tot, 'distinct_nontrivial': nt, 'values': len(vals), 'mismatches': len(mism), 'limit_given_through_set_default_config': True,
             'samples': [{'value': repr(vals[0])[:200], 'depth': '0 .. height+2, None'}],
             'rule': 'container trees with unique leaves x depth in {0 .. height+2, None} x 2 widths; oracle: exactly the leaves nested in fewer than depth containers appear, depth > height == depth None'}
    return stats, mism, fails


# ---------------------------------------------------------------------------------------------
# code tokens (C03): the spec `ctoks` / `canonW` of PP/Spec/Tokens.lean, PP/Proofs/ToksVal.lean against CPython's tokenizer

def py_tokens(text):
    """code tokens of a printed text according to CPython: [('c', str) | ('l', code points)], comments / newlines dropped,
    a bytes literal as its b prefix followed by the literal"""
    import io
    import tokenize
    out = []
    for tok in tokenize.generate_tokens(io.StringIO('(\n' + text + '\n)').readline):
        if tok.type in (tokenize.COMMENT, tokenize.NL, tokenize.NEWLINE, tokenize.INDENT, tokenize.DEDENT, tokenize.ENDMARKER):
            continue
        if tok.type == tokenize.STRING:
            v = ast.literal_eval(tok.string)
            if isinstance(v, bytes):
                out.append(('c', 'b'))
                out.append(('l', tuple(v)))
            else:
                out.append(('l', tuple(map(ord, v))))
        else:
            out.append(('c', tok.string))
    return out[1:-1]


def sx_tokens(sx):
    """tokens as the driver prints them: (c cp..) (l cp..) lbad"""
    out = []
    for t in sx[1:]:
        if t == 'lbad':
            out.append(('bad', ()))
        elif t[0] == 'c':
            out.append(('c', ''.join(chr(int(x)) for x in t[1:])))
        else:
            out.append(('l', tuple(int(x) for x in t[1:])))
    return out


def teq_normal(toks):
    """normal form under TEq (Spec/Tokens.lean): parentheses around a run of >= 2 literals dropped, adjacent literals merged
    (bytes: b-prefixed literals), then adjacent code fragments concatenated (the two tokenizers cut code text differently)"""
    toks = list(toks)
    # 1. parentheses around a run of literals (with optional b prefixes)
    out, i = [], 0
    while i < len(toks):
        if toks[i] == ('c', '('):
            j, nl = i + 1, 0
            while j < len(toks) and (toks[j][0] == 'l' or toks[j] == ('c', 'b')):
                nl += toks[j][0] == 'l'
                j += 1
            if nl >= 2 and j < len(toks) and toks[j] == ('c', ')'):
                out.extend(toks[i + 1:j])
                i = j + 1
                continue
        out.append(toks[i])
        i += 1
    # 2. adjacent literals
    toks, out = out, []
    for t in toks:
        if t[0] == 'l' and out and out[-1][0] == 'l':
            out[-1] = ('l', out[-1][1] + t[1])
        elif t[0] == 'l' and len(out) >= 3 and out[-1] == ('c', 'b') and out[-2][0] == 'l' and out[-3] == ('c', 'b'):
            out.pop()
            out[-1] = ('l', out[-1][1] + t[1])
        else:
            out.append(t)
    # 3. code fragments
    toks, out = out, []
    for t in toks:
        if t[0] == 'c' and out and out[-1][0] == 'c':
            out[-1] = ('c', out[-1][1] + t[1])
        else:
            out.append(t)
    return out


def rval_of(v):
    """what CPython's parser makes of a printed value, in the reader's vocabulary (Spec/Reader.lean): numbers by their literal text"""
    def cps(x):
        return ' '.join(str(ord(c)) for c in x)
    if v is None or v is True or v is False:
        return '(kw %s)' % cps(repr(v))
    if v is Ellipsis:
        return '(kw 46 46 46)'
    if type(v) is int:
        return '(num %s)' % cps(repr(v))
    if type(v) is float:
        if v != v:
            return '(fs %s)' % cps('nan')
        if v in (float('inf'), float('-inf')):
            return '(fs %s)' % cps('inf' if v > 0 else '-inf')
        return '(num %s)' % cps(repr(v))
    if type(v) is str:
        return ('(str 0 %s)' % cps(v)).replace(' )', ')')
    if type(v) is bytes:
        return ('(str 1 %s)' % ' '.join(str(b) for b in v)).replace(' )', ')')
    if type(v) in (list, tuple):
        return '(%s%s)' % ('list' if type(v) is list else 'tuple', ''.join(' ' + rval_of(x) for x in v))
    if type(v) in (set, frozenset):
        return '(%s%s)' % ('set' if type(v) is set else 'fset', ''.join(' ' + r for r in sorted(rval_of(x) for x in v)))
    if type(v) is dict:
        return '(dict%s)' % ''.join(' (%s %s)' % (rval_of(k), rval_of(x)) for k, x in v.items())
    return '(other)'


def sort_sets_sx(t):
    """the reader keeps the printed order of set elements; CPython's set has its own: compare them as multisets"""
    if isinstance(t, list):
        t = [sort_sets_sx(x) for x in t]
        if t and t[0] in ('set', 'fset'):
            t = [t[0]] + sorted(t[1:], key=repr)
        return t
    return t


def token_chunk(args):
    cases = args
    drv = _driver()
    from common import parse_sx as sx_parse
    mism, fails = [], []
    n = nt = skipped = 0
    for (value, sets) in cases:
        sx = val_to_sx(value)
        g = drv.ask('(ctoks %s %s)' % (sx, ' '.join(settings_sx(*st) for st in sets)))
        try:
            res = sx_parse(g)
        except Exception:
            res = None
        if not res or res[0] != 'ok':
            mism.append({'value': repr(value)[:300], 'value_sx': sx[:1500], 'model': g[:300], 'impl': 'ctoks request'})
            continue
        norms = set()
        by_limits = {}
        for st, r in zip(sets, res[1:]):
            indent, width, ribbon, depth, msl, sort = st
            n += 1
            try:
                with warnings.catch_warnings():
                    warnings.simplefilter('ignore')
                    text = pp.pformat(value, indent=indent, width=width, depth=depth, ribbon_width=ribbon, max_seq_len=msl, sort_dict_keys=sort)
                py = py_tokens(text)
            except Exception as e:
                skipped += 1
                continue        # unparsable output is the business of the eval oracle, not of this section
            m_toks, m_canon = sx_tokens(r[0]), sx_tokens(r[1])
            a, b, c = teq_normal(py), teq_normal(m_toks), teq_normal(m_canon)
            norms.add(repr(py))
            # the property itself, on the implementation alone: the same value under the same depth / max_seq_len / sort setting has the
            # same code tokens (up to literal splitting) at every width, ribbon and indent
            prev = by_limits.setdefault((depth, msl, sort), (a, st, text))
            if prev[0] != a and len(fails) < 3:
                fails.append({'kind': 'tokens-depend-on-layout', 'value': repr(value)[:300], 'settings': st, 'other_settings': prev[1],
                              'text': text[:500], 'other_text': prev[2][:500]})
                break
            if a != b:
                if not any(m.get('value_sx') == sx[:1500] for m in mism[-1:]):
                    mism.append({'kind': 'ctoks(model stream) differs from CPython tokenize of the implementation text', 'value': repr(value)[:300],
                                 'value_sx': sx[:1500], 'settings': st, 'impl': repr(a)[:800], 'model': repr(b)[:800]})
                continue        # keep looking at the other layouts of this value: the layout-invariance oracle needs them
            # the reader (Spec/Reader.lean) on the canonical tokens against CPython's parser on the implementation's text
            if depth is None and (msl is None or msl >= 1000) and len(r) > 2 and len(mism) < 3:
                try:
                    got = eval('(' + text + '\n)', {'float': float, 'set': set, 'frozenset': frozenset})
                    want = sort_sets_sx(sx_parse(rval_of(got)))
                except Exception:
                    want = None
                have = r[2][1] if r[2][1] == 'none' else sort_sets_sx(r[2][1])
                if want is not None and '(other)' not in repr(want) and have != want:
                    mism.append({'kind': 'reader(canonical tokens) differs from CPython eval of the implementation text', 'value': repr(value)[:300],
                                 'value_sx': sx[:1500], 'settings': st, 'impl': repr(want)[:800], 'model': repr(have)[:800]})
                    break
            if a != c and len(fails) < 3:
                fails.append({'kind': 'tokens-not-canonical', 'value': repr(value)[:300], 'settings': st, 'text': text[:600],
                              'tokens': repr(a)[:600], 'canonical': repr(c)[:600]})
                break
        if len(norms) > 1:
            nt += 1
    return n, nt, mism, fails, skipped


def tokens_section(tier, seed, limits=False):
    rng = random.Random(seed * 31 + 17 + (5 if limits else 0))
    cases = []
    n_rand = 700 if tier == 'quick' else 8000
    for _ in range(n_rand):
        v = V.rand_value(rng, budget=rng.choice([5, 10, 20, 40]))
        if rng.random() < 0.4:
            v = add_comments(rng, v, rng.choice([0.15, 0.4]))
        sorts = (0, 1) if sortable(V.strip_comments(v)) and rng.random() < 0.3 else (0,)
        sets = settings_for(rng, v, 'quick', sorts)
        if limits or rng.random() < 0.3:      # depth / max_seq_len limits: canonW depends on them, not on the layout
            d, m = rng.choice([None, 0, 1, 2, 3]), rng.choice([1000, None, 1, 2, 3, 5])
            sets = [(i, w, r, d, m, s) for (i, w, r, _, _, s) in sets]
        cases.append((v, sets))
    chunks = [cases[i:i + 25] for i in range(0, len(cases), 25)]
    tot = nt = skipped = 0
    mism, fails = [], []
    with mp.Pool(min(NCPU, len(chunks))) as pool:
        for n, t, mm, ff, sk in pool.imap_unordered(token_chunk, chunks):
            tot += n
            nt += t
            skipped += sk
            mism.extend(mm)
            fails.extend(ff)
    stats = {'evaluations': tot, 'distinct_nontrivial': nt, 'random_values': n_rand, 'mismatches': len(mism),
             'skipped_output_not_tokenizable': skipped,
             'samples': [{'value': val_to_sx(cases[0][0])[:300]}],
             'rule': 'random built-in value trees (40% with comments, 30% with depth / max_seq_len limits) x 10 widths x ribbons x indents: '
                     'CPython tokenize of the implementation text, the spec tokenizer ctoks on the model stream and the canonical tokens canonW '
                     'agree up to the TEq normal form (split literals merged, parentheses around split literals dropped); '
                     'non-trivial = values whose raw token sequence differs between layouts'}
    return stats, mism, fails


# ---------------------------------------------------------------------------------------------
# everything at once: built-ins, subclass instances, call-style objects, stdlib types and comments nested in each other, under all six
# settings at once (the other sections vary one dimension and pin the rest)

def mix_value(rng, depth=0):
    import collections
    import datetime
    import pathlib
    import types
    import uuid
    import subclasses as S
    import sec_stdlib

    def plain_leaf():
        return rng.choice([0, 1, -7, 10 ** 12, 2.5, -0.0, float('inf'), True, None, '', 'a', 'two words', "it's", 'x' * 30, 'word ' * 12, b'', b'by tes', 'é中'])

    def leaf():
        r = rng.random()
        if r < 0.6:
            return plain_leaf()
        if r < 0.8:
            return rng.choice([datetime.timedelta(days=2, seconds=5), datetime.datetime(2020, 1, 2, 3, 4), datetime.date(2020, 2, 29), datetime.time(0, 0, 5),
                               uuid.UUID(int=9), sec_stdlib.Color.RED, pathlib.PurePosixPath('/a/b'), datetime.timezone.utc, datetime.datetime(2020, 11, 1, fold=1)])
        base, val = rng.choice([(int, 5), (str, 'sub str'), (float, 1.5), (bytes, b'sb'), (str, 'long ' * 10)])
        return S.make(rng, base, val)

    if depth >= 3 or rng.random() < 0.3:
        v = leaf()
    else:
        r = rng.random()
        n = rng.choice([0, 1, 2, 3])
        if r < 0.2:
            v = [mix_value(rng, depth + 1) for _ in range(n)]
        elif r < 0.3:
            v = tuple(mix_value(rng, depth + 1) for _ in range(n))
        elif r < 0.45:
            v = {}
            for _ in range(n):
                k = rng.choice([plain_leaf(), (1, 'k'), datetime.date(2020, 1, 1), S.make(rng, str, 'subkey'), S.make(rng, tuple, (1, 2)), sec_stdlib.Point(1, 2),
                                uuid.UUID(int=3), pathlib.PurePosixPath('/k')])
                try:
                    v[k] = mix_value(rng, depth + 1)
                except TypeError:
                    pass
        elif r < 0.52:
            v = rng.choice([set, frozenset])(x for x in (plain_leaf() for _ in range(n)) if x == x)
        elif r < 0.62:
            base = rng.choice([list, tuple, dict])
            payload = {'k%d' % i: plain_leaf() for i in range(n)} if base is dict else base(plain_leaf() for _ in range(n))
            v = S.make(rng, base, payload)
        elif r < 0.8:
            v = S.CallObj(rng.choice([S.Ctor, S.some_function]), tuple(mix_value(rng, depth + 1) for _ in range(rng.choice([0, 1, 2]))),
                          [('kw%d' % i, mix_value(rng, depth + 1)) for i in range(rng.choice([0, 0, 1, 2]))])
        else:
            kind = rng.randrange(6)
            items = [mix_value(rng, depth + 1) for _ in range(n)]
            if kind == 0:
                v = collections.OrderedDict(('k%d' % i, x) for i, x in enumerate(items))
            elif kind == 1:
                v = collections.defaultdict(list, {'k%d' % i: x for i, x in enumerate(items)})
            elif kind == 2:
                v = collections.deque(items, maxlen=rng.choice([None, 5]))
            elif kind == 3:
                v = collections.ChainMap({'a': items[0]} if items else {}, {'b': 1})
            elif kind == 4:
                v = types.SimpleNamespace(**{'f%d' % i: x for i, x in enumerate(items)})
            else:
                v = sec_stdlib.Point(items[0] if items else 1, 2)
    if rng.random() < 0.12:
        v = pp.comment(v, rng.choice(COMMENT_TEXTS))
    elif rng.random() < 0.05:
        v = pp.trailing_comment(v, rng.choice(COMMENT_TEXTS))
    return v


def sortable_deep(v, depth=0):
    """`sortable` for values that hide their dicts inside stdlib containers (deque, ChainMap, OrderedDict, defaultdict, SimpleNamespace,
    namedtuples) or call objects: every dict anywhere inside must have keys the model can order"""
    import collections
    import types
    if depth > 12:
        return False
    while isinstance(v, (P._CommentedValue, P._TrailingCommentedValue)):
        v = v.value
    if isinstance(v, dict):
        # the dict's own keys, judged by `sortable` on a shallow copy with scalar values
        if not sortable({k: 0 for k in v}):
            return False
        return all(sortable_deep(k, depth + 1) and sortable_deep(x, depth + 1) for k, x in v.items())
    if isinstance(v, collections.ChainMap):
        return all(sortable_deep(m, depth + 1) for m in v.maps)
    if isinstance(v, (list, tuple, set, frozenset, collections.deque)):
        return all(sortable_deep(x, depth + 1) for x in v)
    if isinstance(v, types.SimpleNamespace):
        return all(sortable_deep(x, depth + 1) for x in v.__dict__.values())
    desc = getattr(v, '__verif_call__', None)
    if desc is not None:
        c = desc()
        return all(sortable_deep(a, depth + 1) for a in c.args) and all(sortable_deep(x, depth + 1) for _, x in c.kwargs)
    return True


def mix_chunk(cases):
    import sec_stdlib
    drv = _driver()
    mism, fails = [], []
    n = nt = 0
    for case in cases:
        value, sets = case[0], case[1]
        with_model = case[2] if len(case) > 2 else True
        try:
            sx = sec_stdlib.sx(value)
        except Exception:
            continue
        pieces, texts, groups = [], [], {}
        warned = False
        for st in sets:
            p, text, kinds = impl_piece(value, st)
            pieces.append(p)
            texts.append(text)
            n += 1
            if 'printer-failed' in kinds or 'raised' in kinds:
                warned = (st, kinds)
            elif not with_model:
                # no model to compare with (keys the model does not order): at least the same call gives the same text again
                p2, text2, _k = impl_piece(value, st)
                if text2 != text and len(fails) < 3:
                    fails.append({'kind': 'output-not-deterministic', 'settings': st, 'value': repr(value)[:300], 'text': (text or '')[:300], 'again': (text2 or '')[:300]})
        if len(set(texts)) > 1:
            nt += 1
        g = drv.ask('(pformat %s %s)' % (sx, ' '.join(settings_sx(*st) for st in sets))) if with_model else None
        if with_model and g != '(ok ' + ' '.join(pieces) + ')':
            for st, p in zip(sets, pieces):
                g1 = drv.ask('(pformat %s %s)' % (sx, settings_sx(*st)))
                if g1 != '(ok ' + p + ')':
                    mism.append({'value': repr(value)[:300], 'value_sx': sx[:2000], 'settings': st, 'impl': p[:1500], 'model': g1[:1500]})
                    break
        if len(fails) >= 3:
            continue
        bad = None
        if warned:
            bad = {'kind': 'bundled-printer-fails', 'settings': warned[0], 'why': 'pformat raised or a bundled printer fell back to repr with a failure warning: %s' % (warned[1],)}
        else:
            for st, text in zip(sets, texts):
                # the same syntax tree at every width / ribbon / indent (per depth / max_seq_len / sort setting), indentation in multiples of indent
                try:
                    a = ast_of(text)
                except SyntaxError:
                    a = None       # reprs of unregistered objects etc. are not expressions: nothing to compare
                key = st[3:]
                if a is not None:
                    prev = groups.setdefault(key, (a, st, text))
                    if prev[0] != a:
                        bad = {'kind': 'syntax-tree-depends-on-layout', 'settings': st, 'other_settings': prev[1], 'text': text[:400], 'other_text': prev[2][:400]}
                        break
                for line in text.split('\n')[1:]:
                    lead = len(line) - len(line.lstrip(' '))
                    if line.strip() and lead % st[0] != 0 and a is not None:
                        bad = {'kind': 'indent-not-multiple', 'settings': st, 'line': line[:100], 'text': text[:400]}
                        break
                if bad:
                    break
        if bad:
            bad['value'] = repr(value)[:300]
            fails.append(bad)
    return n, nt, mism, fails


def mix_section(tier, seed):
    rng = random.Random(seed * 71 + 31)
    cases = []
    for _ in range(500 if tier == 'quick' else 6000):
        v = mix_value(rng)
        plain = V.strip_comments(v)
        limits = [(None, 1000), (None, None), (rng.choice([0, 1, 2, 3]), 1000), (None, rng.choice([1, 2, 3])), (rng.choice([1, 2, 3]), rng.choice([1, 2, 5]))]
        can_model_sort = sortable_deep(v) and not comment_inside_tuple_key(v)
        srt = 1 if rng.random() < 0.4 else 0
        with_model = can_model_sort or srt == 0
        sets = []
        for (d, m) in rng.sample(limits, 2):
            for _ in range(3):
                w = rng.choice([1, 8, 13, 20, 30, 40, 60, 79, 120])
                r = rng.choice([w, max(1, w // 2), w + 10])
                if V.ribbon_ok(w, r):
                    sets.append((rng.choice([1, 2, 4, 8]), w, r, d, m, srt))
        if sets:
            cases.append((v, sets, with_model))
    chunks = [cases[i:i + 25] for i in range(0, len(cases), 25)]
    tot = nt = 0
    mism, fails = [], []
    with mp.Pool(min(NCPU, len(chunks))) as pool:
        for n, t, mm, ff in pool.imap_unordered(mix_chunk, chunks):
            tot += n
            nt += t
            mism.extend(mm)
            fails.extend(ff)
    stats = {'evaluations': tot, 'distinct_nontrivial': nt, 'values': len(cases), 'mismatches': len(mism),
             'samples': [{'value': repr(cases[0][0])[:200]}, {'value': repr(cases[1][0])[:200]}],
             'rule': 'values mixing everything the model knows - built-ins, instances of the generated subclasses, pretty_call objects with positional and keyword arguments, '
                     'stdlib types (datetime family, UUID, Enum, paths, OrderedDict, defaultdict, deque, ChainMap, SimpleNamespace, namedtuple), comments and trailing comments - '
                     'nested in each other up to depth 3, each printed under 6 settings drawn from all six parameters at once (indent 1/2/4/8, widths 1-120, ribbons, depth None/0-3, '
                     'max_seq_len None/1000/1-5, sort flag): SDoc stream and text compared with the model; oracles on the implementation: no printer fails, the same syntax tree at '
                     'every layout of one limit setting, continuation lines indented in multiples of indent; non-trivial = values whose text differs between settings'}
    return stats, mism, fails


# ---------------------------------------------------------------------------------------------
# depth, generically (C11): whatever the printers involved, the literals shown can only grow with the depth limit

def depth_monotone_chunk(values):
    import collections
    fails = []
    n = nt = 0
    for value in values:
        shown = []
        ok = True
        for d in (0, 1, 2, 3, 4, 5, 6, 8, None):
            try:
                with warnings.catch_warnings():
                    warnings.simplefilter('ignore')
                    text = pp.pformat(value, depth=d, width=100)
                toks = py_tokens(text)
            except Exception:
                ok = False
                break
            lits = collections.Counter()
            for t in toks:
                if t[0] == 'l':
                    lits[('l', t[1])] += 1
                elif t[0] == 'c' and (t[1][:1].isdigit() or (t[1][:1] == '-' and t[1][1:2].isdigit())):
                    lits[('n', t[1])] += 1
            shown.append((d, lits, text))
            n += 1
        if not ok:
            continue
        nt += 1
        for (d1, a, t1), (d2, b, t2) in zip(shown, shown[1:]):
            if a - b:
                if len(fails) < 3:
                    fails.append({'kind': 'depth', 'why': 'literals shown with depth=%r are missing with the larger depth=%r: %s' % (d1, d2, sorted(map(str, (a - b).keys()))[:5]),
                                  'value': repr(value)[:300], 'settings': {'depth': d1}, 'text': t1[:300], 'text_at_larger_depth': t2[:300]})
                break
    return n, nt, [], fails


def depth_monotone_section(tier, seed):
    rng = random.Random(seed * 83 + 37)
    vals = [mix_value(rng) for _ in range(400 if tier == 'quick' else 5000)]
    import collections
    vals += [[100, collections.deque([101, [102, [103]]], maxlen=777)], collections.deque([1, [2, [3]]]), {'a': collections.OrderedDict([('b', [1, [2]])])},
             [collections.defaultdict(list, {'k': [1, [2, (3, [4])]]})], collections.ChainMap({'a': [1, [2]]}, {'b': (3, [4])})]
    chunks = [vals[i:i + 25] for i in range(0, len(vals), 25)]
    tot = nt = 0
    fails = []
    with mp.Pool(min(NCPU, len(chunks))) as pool:
        for n, t, mm, ff in pool.imap_unordered(depth_monotone_chunk, chunks):
            tot += n
            nt += t
            fails.extend(ff)
    stats = {'evaluations': tot, 'distinct_nontrivial': nt, 'values': len(vals), 'mismatches': 0,
             'samples': [{'value': repr(vals[0])[:200]}],
             'rule': 'values mixing built-ins, subclass instances, call objects and stdlib containers (bounded deques, OrderedDict, defaultdict, ChainMap, namespaces), '
                     'each printed with depth = 0..6, 8, None: the multiset of string / bytes / number literals shown never loses an element when the limit grows '
                     '("the output for d is the unlimited output with some sub-expressions replaced by placeholders"), whatever printers are involved'}
    return stats, [], fails[:3]


# ---------------------------------------------------------------------------------------------
# the reader (Spec/Reader.lean) against CPython's own parser, on subclass instances and call-style objects (C08 / C17 / C01)

def rval_of_ast(text):
    """what CPython's parser (ast) makes of a printed text, in the vocabulary of Spec/Reader.lean: numbers by their literal text,
    calls as (call (name) item ...) with keyword items (kwarg (name) value); float('inf'), set(), frozenset(), frozenset([..])
    have the readings the reader gives them"""
    src = '(' + text + '\n)'
    root = ast.parse(src, mode='eval').body

    def cps(x):
        return ' '.join(str(ord(c)) for c in x)

    def dotted(n):
        if isinstance(n, ast.Name):
            return n.id
        if isinstance(n, ast.Attribute):
            return dotted(n.value) + '.' + n.attr
        raise ValueError('callee')

    def go(n):
        if isinstance(n, ast.Constant):
            v = n.value
            if v is None or v is True or v is False:
                return '(kw %s)' % cps(repr(v))
            if v is Ellipsis:
                return '(kw 46 46 46)'
            if isinstance(v, (int, float)):
                return '(num %s)' % cps(ast.get_source_segment(src, n))
            if isinstance(v, str):
                return ('(str 0 %s)' % cps(v)).replace(' )', ')')
            if isinstance(v, bytes):
                return ('(str 1 %s)' % ' '.join(str(b) for b in v)).replace(' )', ')')
        if isinstance(n, ast.UnaryOp) and isinstance(n.op, ast.USub) and isinstance(n.operand, ast.Constant):
            return '(num %s)' % cps(ast.get_source_segment(src, n))
        if isinstance(n, (ast.List, ast.Tuple, ast.Set)):
            tag = {ast.List: 'list', ast.Tuple: 'tuple', ast.Set: 'set'}[type(n)]
            return '(%s%s)' % (tag, ''.join(' ' + go(x) for x in n.elts))
        if isinstance(n, ast.Dict):
            return '(dict%s)' % ''.join(' (%s %s)' % (go(k), go(x)) for k, x in zip(n.keys, n.values))
        if isinstance(n, ast.Call):
            name = dotted(n.func)
            if name == 'float' and len(n.args) == 1 and not n.keywords and isinstance(n.args[0], ast.Constant) and isinstance(n.args[0].value, str):
                return '(fs %s)' % cps(n.args[0].value)
            if name == 'set' and not n.args and not n.keywords:
                return '(set)'
            if name == 'frozenset' and not n.keywords:
                if not n.args:
                    return '(fset)'
                if len(n.args) == 1 and isinstance(n.args[0], ast.List):
                    return '(fset%s)' % ''.join(' ' + go(x) for x in n.args[0].elts)
            items = [go(a) for a in n.args] + ['(kwarg (%s) %s)' % (cps(k.arg), go(k.value)) for k in n.keywords]
            return '(call (%s)%s)' % (cps(name), ''.join(' ' + i for i in items))
        if isinstance(n, (ast.Name, ast.Attribute)):
            # a name used as a value: int, datetime.timezone.utc, Color.RED
            return '(name %s)' % cps(dotted(n))
        raise ValueError('outside the fragment: %s' % type(n).__name__)
    return go(root)


def contains_enum(v):
    import enum
    v = V.strip_comments(v) if isinstance(v, (P._CommentedValue, P._TrailingCommentedValue)) else v
    if isinstance(v, enum.Enum):
        return True
    if isinstance(v, dict):
        return any(contains_enum(k) or contains_enum(x) for k, x in v.items())
    if isinstance(v, (list, tuple, set, frozenset)):
        return any(contains_enum(x) for x in v)
    d = getattr(v, '__verif_call__', None)
    if d is not None:
        c = d()
        return any(contains_enum(a) for a in c.args) or any(contains_enum(x) for _, x in c.kwargs)
    return False


_READER_CASES = []


def td_read_case(drv, value, sx, sets, sx_parse):
    """a bare timedelta at every layout: `readTimedelta` (Spec/TdReader.lean) on the model's code tokens = CPython's eval of the implementation's
    text = the value itself, in microseconds.  Returns None, or a mismatch / failing-input record (`_fail` True when the property itself fails)."""
    want_us = (value.days * 86400 + value.seconds) * 10 ** 6 + value.microseconds
    g = drv.ask('(tdread %s %s)' % (sx, ' '.join(settings_sx(*st) for st in sets)))
    try:
        res = sx_parse(g)
    except Exception:
        res = None
    if not res or res[0] != 'ok' or len(res) != len(sets) + 1:
        return {'_fail': False, 'kind': 'tdread request', 'value': repr(value), 'value_sx': sx, 'model': g[:300], 'impl': 'tdread request'}
    for st, r in zip(sets, res[1:]):
        indent, width, ribbon, depth, msl, sort = st
        text = pp.pformat(value, indent=indent, width=width, depth=depth, ribbon_width=ribbon, max_seq_len=msl, sort_dict_keys=sort)
        try:
            got = eval(text, {'datetime': datetime})
        except Exception as e:
            return {'_fail': True, 'kind': 'timedelta-output-does-not-evaluate', 'why': '%s: %s' % (type(e).__name__, e), 'value': repr(value),
                    'settings': st, 'text': text[:300]}
        if depth is not None and depth < 2:
            continue                # placeholders: C11's business, outside the theorem's hypotheses
        if type(got) is not datetime.timedelta or got != value:
            return {'_fail': True, 'kind': 'timedelta-output-evaluates-to-another-value', 'value': repr(value), 'settings': st, 'text': text[:300],
                    'evaluates_to': repr(got)[:200]}
        have = None if r == 'none' else (int(r[1]) if r[0] == 'pos' else -int(r[1]))
        if have != want_us:
            return {'_fail': False, 'kind': 'readTimedelta(code tokens of the model stream) differs from CPython eval of the implementation text',
                    'value': repr(value), 'value_sx': sx, 'settings': st, 'impl': want_us, 'model': have, 'text': text[:300]}
    return None


def reader_chunk(cases):
    import sec_stdlib
    lenient = False
    if isinstance(cases, tuple):
        # an index range into the cases built before the pool was forked (stdlib values do not all pickle)
        lenient = cases[2]
        cases = _READER_CASES[cases[0]:cases[1]]
    from common import parse_sx as sx_parse
    drv = _driver()
    mism, fails = [], []
    n = nt = unread = arith = 0
    for (value, sets) in cases:
        sx = sec_stdlib.sx(value)
        g = drv.ask('(ctoks %s %s)' % (sx, ' '.join(settings_sx(*st) for st in sets)))
        try:
            res = sx_parse(g)
        except Exception:
            res = None
        if not res or res[0] != 'ok':
            mism.append({'value': repr(value)[:300], 'value_sx': sx[:1500], 'model': g[:300], 'impl': 'ctoks request'})
            continue
        readings = set()
        if type(value) is datetime.timedelta:
            try:
                td_problem = td_read_case(drv, value, sx, sets, sx_parse)
            except Exception as e:
                td_problem = {'_fail': True, 'kind': 'pformat-raises', 'why': '%s: %s' % (type(e).__name__, e), 'value': repr(value)}
            if td_problem is not None:
                (fails if td_problem.pop('_fail') else mism).append(td_problem)
                continue
        for st, r in zip(sets, res[1:]):
            indent, width, ribbon, depth, msl, sort = st
            n += 1
            with warnings.catch_warnings():
                warnings.simplefilter('ignore')
                try:
                    text = pp.pformat(value, indent=indent, width=width, depth=depth, ribbon_width=ribbon, max_seq_len=msl, sort_dict_keys=sort)
                except Exception as e:
                    if len(fails) < 3:
                        fails.append({'kind': 'pformat-raises', 'why': '%s: %s' % (type(e).__name__, e), 'value': repr(value)[:300], 'settings': st})
                    break
            try:
                want = sx_parse(rval_of_ast(text))
            except Exception as e:
                if lenient and isinstance(e, ValueError) and str(e) in ('outside the fragment: BinOp', 'outside the fragment: UnaryOp'):
                    # timedelta prints arithmetic (`-datetime.timedelta(days=3 * 365 + 7)`): outside the fragment of Spec/Reader.lean; a bare
                    # timedelta is read by Spec/TdReader.lean instead (C07.timedelta_reads_back), nested ones are counted as skipped
                    if type(value) is not datetime.timedelta:
                        arith += 1
                    break
                if len(fails) < 3:
                    fails.append({'kind': 'output-outside-the-expression-fragment', 'why': '%s: %s' % (type(e).__name__, e), 'value': repr(value)[:300],
                                  'settings': st, 'text': text[:400]})
                break
            readings.add(repr(want))
            have = r[2][1]
            if have == 'none':
                unread += 1
                mism.append({'kind': 'the reader of Spec/Reader.lean does not read the canonical tokens of a value of the fragment', 'value': repr(value)[:300],
                             'value_sx': sx[:1500], 'settings': st, 'impl': repr(want)[:800], 'model': 'none'})
                break
            if have != want:
                mism.append({'kind': 'reader(canonical tokens) differs from CPython ast of the implementation text', 'value': repr(value)[:300],
                             'value_sx': sx[:1500], 'settings': st, 'impl': repr(want)[:800], 'model': repr(have)[:800]})
                break
        # the property: what the text denotes does not depend on the layout
        if len(readings) > 1 and len(fails) < 3:
            fails.append({'kind': 'syntax-tree-depends-on-layout', 'value': repr(value)[:300], 'readings': sorted(readings)[:2]})
        nt += 1
    return n, nt, mism, fails, arith


def reader_section(tier, seed, mode='all'):
    """subclass instances (C08), call-style objects (C17) and built-in values (C01), nested in each other, with comments; limits off"""
    import subclasses as S
    rng = random.Random(seed * 43 + 29)
    vals = []
    k = 250 if tier == 'quick' else 2500
    if mode in ('all', 'c08'):
        vals += subclass_values(rng, k)
    if mode in ('all', 'c17'):
        vals += [rand_call(rng) for _ in range(k)]
        vals += [[rand_call(rng), S.make(rng, list, [1, 'a'])] for _ in range(k // 5)]
    if mode in ('all', 'c01'):
        vals += [V.rand_value(rng, budget=rng.choice([3, 8, 20])) for _ in range(k)]
    if mode in ('c10', 'c11'):
        vals += [V.rand_value(rng, budget=rng.choice([8, 20, 40])) for _ in range(k)]
        vals += subclass_values(rng, k // 3) + [rand_call(rng) for _ in range(k // 3)]
    if mode in ('all', 'c07'):
        # stdlib values: calls with dotted callees, names used as values (timezone.utc, Enum members, classes, functions)
        import sec_stdlib
        inst = sec_stdlib.instances(rng)
        if mode == 'all':
            inst = rng.sample(inst, min(len(inst), k // 2))
        for x in inst:
            ctxs = sec_stdlib.nest_contexts(x, rng)
            vals += ctxs if mode == 'c07' else [rng.choice(ctxs)]
    n_td = 0
    if mode in ('all', 'c07'):
        # bare timedeltas for Spec/TdReader.lean: every sign, zero, whole years, exactly one year, boundary fields, extremes
        td = datetime.timedelta
        tds = [td(0), td(days=365), td(days=366), td(days=730), td(days=731, milliseconds=1), -td(days=365), td(microseconds=-1), td.min, td.max,
               td(days=364, hours=23, minutes=59, seconds=59, milliseconds=999, microseconds=999), td(hours=1), td(microseconds=1000), -td(seconds=1)]
        for _ in range(k // 4 if mode == 'all' else k):
            tds.append(td(days=rng.choice([0, 0, 1, 364, 365, 366, 729, 730, rng.randrange(-4000, 4000), rng.randrange(-10 ** 6, 10 ** 6)]),
                          seconds=rng.choice([0, 0, 59, 60, 3599, 3600, 86399, rng.randrange(86400)]),
                          microseconds=rng.choice([0, 0, 1, 999, 1000, 999999, rng.randrange(10 ** 6)])))
        n_td = len(tds)
        vals += tds
    cases = []
    for v in vals:
        if type(v) is datetime.timedelta:
            ss = settings_for(rng, v, 'quick')
            cases.append((v, [(i, w, r, None, None, 0) for (i, w, r, _, _, _) in ss] + [(i, w, r, dd, None, 0) for (i, w, r, _, _, _) in ss[:2] for dd in (2, 5)]))
            continue
        if rng.random() < 0.3:
            v2 = add_comments(rng, v, 0.2)
            if not has_trailing_on_empty_dict_subclass(v2):      # K7
                v = v2
        if mode == 'c11':
            # depth-limited output (sometimes truncated too): placeholders are expressions the reader reads
            d = rng.choice([0, 1, 2, 3])
            msl = rng.choice([None, 1000, 2, 3])
            sets = [(i, w, r, d, msl, 0) for (i, w, r, _, _, _) in settings_for(rng, v, 'quick')[::2]]
        elif mode == 'c10':
            # truncated (and, where the keys allow it, sorted) output: the reader still reads it - as the first N elements
            msl = rng.choice([1, 2, 3, 5])
            srt = 1 if sortable(V.strip_comments(v)) and not comment_inside_tuple_key(v) and rng.random() < 0.5 else 0
            sets = [(i, w, r, None, msl, srt) for (i, w, r, _, _, _) in settings_for(rng, v, 'quick')[::2]]
        else:
            sets = [(i, w, r, None, None, 0) for (i, w, r, _, _, _) in settings_for(rng, v, 'quick')[::2]]
        cases.append((v, sets))
    global _READER_CASES
    _READER_CASES = cases
    chunks = [(i, i + 25, mode in ('all', 'c07')) for i in range(0, len(cases), 25)]
    tot = nt = arith = 0
    mism, fails = [], []
    with mp.Pool(min(NCPU, len(chunks))) as pool:
        for n, t, mm, ff, ar in pool.imap_unordered(reader_chunk, chunks):
            tot += n
            nt += t
            arith += ar
            mism.extend(mm)
            fails.extend(ff)
    stats = {'evaluations': tot, 'distinct_nontrivial': nt, 'values': len(cases), 'mismatches': len(mism),
             'values_printed_with_arithmetic_skipped': arith, 'bare_timedeltas_read_by_TdReader': n_td,
             'samples': [{'value': repr(cases[0][0])[:200]}, {'value': repr(cases[-1][0])[:200]}],
             'rule': 'instances of the generated subclasses of the nine built-in bases, pretty_call objects with 0-3 positional / 0-2 keyword arguments and '
                     'built-in value trees, nested in each other, 30% with comments, limits off, 5 layouts each: the reading of the canonical tokens by the '
                     'reader of Spec/Reader.lean equals what CPython\'s ast makes of the implementation\'s text (calls with their callee, positional and keyword '
                     'items in order; numbers by literal text), for every layout; non-trivial = values.  Bare timedeltas (boundary values and random ones, about 30 layouts each incl. depth 2 and 5): '
                     'readTimedelta of Spec/TdReader.lean on the code tokens of the model stream = eval of the implementation text, which must be an equal timedelta'}
    return stats, mism, fails


# ---------------------------------------------------------------------------------------------
# comments on values whose printer is registered lazily by name, printed FIRST in a fresh interpreter (C09)

FRESH_COMMENT = r'''
import sys, json, warnings, ast
sys.path.insert(0, %r)
import prettyprinter as pp
import uuid, enum, pathlib, functools, collections, datetime, types
class Color(enum.Enum):
    RED = 1
def a_function(x):
    return x
cases = {
  # values whose printers add a comment of their own (# class, # function, # built-in function): the user's comment must still be shown
  'class': lambda: Color, 'builtin-class': lambda: int, 'function': lambda: a_function, 'builtin-function': lambda: len, 'bound-method': lambda: [].append,
  'uuid': lambda: uuid.UUID(int=7), 'enum': lambda: Color.RED, 'path': lambda: pathlib.PurePosixPath('/a/b'),
  'partial': lambda: functools.partial(int, base=2), 'mappingproxy': lambda: types.MappingProxyType({'a': 1}),
  'ordereddict': lambda: collections.OrderedDict(a=1), 'datetime': lambda: datetime.date(2020, 1, 2), 'exception': lambda: ValueError('x'),
}
name, wrap = sys.argv[1], sys.argv[2]
v = cases[name]()
w = {'comment': lambda x: pp.comment(x, 'note'), 'in-list': lambda x: [pp.comment(x, 'note'), 1], 'dict-value': lambda x: {'k': pp.comment(x, 'note')},
     'trailing': lambda x: [pp.trailing_comment(pp.comment(x, 'note'), 't')]}[wrap]
with warnings.catch_warnings(record=True) as ws:
    warnings.simplefilter('always')
    first = pp.pformat(w(v))                 # the commented value is the first thing this interpreter prints
    plain = pp.pformat(w(v) if False else {'comment': v, 'in-list': [v, 1], 'dict-value': {'k': v}, 'trailing': [v]}[wrap])
print('@@' + json.dumps({'first': first, 'plain': plain, 'warnings': [str(x.message)[:80] for x in ws]}))
'''


def fresh_comment_section(tier, seed):
    import json
    import subprocess
    from common import REPO
    names = ['uuid', 'enum', 'path', 'partial', 'mappingproxy', 'ordereddict', 'datetime', 'exception',
             'class', 'builtin-class', 'function', 'builtin-function', 'bound-method']
    wraps = ['comment', 'in-list', 'dict-value', 'trailing']
    jobs = [(n, w) for n in names for w in (wraps if tier == 'thorough' else wraps[:3])]
    fails, tot = [], 0
    procs = []
    code = FRESH_COMMENT % (REPO,)
    pending = list(jobs)
    results = {}
    while pending or procs:
        while pending and len(procs) < NCPU:
            j = pending.pop()
            procs.append((j, subprocess.Popen([sys.executable, '-c', code, j[0], j[1]], stdout=subprocess.PIPE, stderr=subprocess.DEVNULL, text=True)))
        j, p = procs.pop(0)
        out, _ = p.communicate(timeout=120)
        for line in out.splitlines():
            if line.startswith('@@'):
                results[j] = json.loads(line[2:])
    for j in jobs:
        r = results.get(j)
        tot += 1
        if r is None:
            fails.append({'kind': 'fresh-comment-crash', 'case': j})
            continue
        try:
            a, b = ast_of(r['first']), ast_of(r['plain'])
        except SyntaxError:
            a, b = 0, 1
        words = comment_words(r['first']) or []
        if a != b or 'note' not in words:
            if len(fails) < 3:
                fails.append({'kind': 'comment-on-lazily-registered-type', 'case': list(j), 'commented_printed_first': r['first'][:300],
                              'uncommented': r['plain'][:300], 'warnings': r['warnings']})
    stats = {'evaluations': tot, 'distinct_nontrivial': tot, 'mismatches': 0,
             'rule': 'comment() on values whose printer is registered lazily by qualified name (uuid, enum, pathlib, partial, mappingproxy, OrderedDict, date, exception), '
                     'alone / in a list / as a dict value, printed as the FIRST thing in a fresh interpreter: same syntax tree as the uncommented value, comment words present'}
    return stats, [], fails


# ---------------------------------------------------------------------------------------------
# C06 at the level of values: a one-line rendering of L columns is reproduced at every width and ribbon_width >= L

def is_int_tree(v):
    if type(v) is int:
        return True
    return type(v) in (list, tuple) and all(is_int_tree(x) for x in v)


def simple_oneline(v):
    """repr(v) when v is a tree of plain lists / tuples of plain ints in which no sequence is long enough for the long-sequence shortcut of
    sequence_of_docs (3 * n > MAX_PRACTICAL_RIBBON_WIDTH = 150, i.e. n >= 51) — such a value's document has no forced break; None otherwise"""
    def ok(x):
        if type(x) is int:
            return True
        return type(x) in (list, tuple) and len(x) <= 50 and all(ok(y) for y in x)
    return repr(v) if ok(v) and type(v) is not int else None


def oneline_chunk(cases):
    drv = _driver()
    mism, fails = [], []
    n = nt = 0
    for value in cases:
        with warnings.catch_warnings():
            warnings.simplefilter('ignore')
            wide = pp.pformat(value, width=100000, ribbon_width=100000)
        ref = simple_oneline(value)
        broken_wide = '\n' in wide
        if broken_wide:
            # an independent notion of the one-line form: a list / tuple of ints whose sequences all have at most
            # MAX_PRACTICAL_RIBBON_WIDTH / 3 elements contains no forced break, so its unbounded-width rendering is repr(value)
            if ref is not None and len(fails) < 3:
                fails.append({'kind': 'value-without-forced-break-is-broken-at-unbounded-width', 'value': repr(value)[:300], 'one_line': ref[:300],
                              'L': len(ref), 'settings': (4, 100000, 100000, None, 1000, 0), 'text': wide[:400]})
            if not is_int_tree(value):
                continue
            # long sequences around the shortcut's threshold: no one-line form, but model and implementation must still agree
            sets = [(4, 100000, 100000, None, 1000, 0), (4, 160, 160, None, 1000, 0)]
        else:
            if ref is not None and wide != ref and len(fails) < 3:
                fails.append({'kind': 'one-line-form-is-not-the-literal', 'value': repr(value)[:300], 'one_line': ref[:300], 'L': len(ref),
                              'settings': (4, 100000, 100000, None, 1000, 0), 'text': wide[:400]})
            L = len(wide)
            sets = [(4, w, r, None, 1000, 0) for (w, r) in ((L, L), (L + 1, L), (L, L + 1), (L + 3, L + 3), (2 * L, L), (L, 2 * L), (L + 40, L + 17))
                    if w >= 1 and r >= 1 and V.ribbon_ok(w, r)]
        if not sets:
            continue
        nt += 1
        sx = val_to_sx(value)
        pieces = []
        for st in sets:
            p, text, kinds = impl_piece(value, st)
            pieces.append(p)
            n += 1
            if not broken_wide and text != wide and len(fails) < 3:
                fails.append({'kind': 'value-one-line-unstable', 'value': repr(value)[:300], 'one_line': wide[:300], 'L': L, 'settings': st,
                              'text': (text or '')[:400]})
                break
        g = drv.ask('(pformat %s %s)' % (sx, ' '.join(settings_sx(*st) for st in sets)))
        if g != '(ok ' + ' '.join(pieces) + ')':
            mism.append({'value': repr(value)[:300], 'value_sx': sx[:1500], 'settings': sets[0], 'impl': pieces[0][:800], 'model': g[:800]})
    return n, nt, mism, fails


def oneline_section(tier, seed):
    rng = random.Random(seed * 41 + 23)
    words = ['hello world', 'a b c d e f g h', 'some longer text here', 'x' * 12, "it's a \"quoted\" one", 'path/like/string/value', b'bytes with spaces ok']
    # strings whose printed width is not len + 2: either kind of quote in any proportion, backslashes, escapes, non-ASCII, bytes
    alpha = ['a', 'b', ' ', "'", "'", '"', '\\', '\xe9', '\u4e2d', '\t', 'c d']
    for _ in range(60 if tier == 'quick' else 600):
        t = ''.join(rng.choice(alpha) for _ in range(rng.choice([8, 11, 14, 20, 30])))
        words.append(t)
        if rng.random() < 0.3:
            words.append(t.encode('utf-8'))
    # fixed words whose literal is longer or shorter than repr() / len() + 2 would say (the printer picks the quote that needs fewer
    # escapes; repr does not), and every word at least once on its own, in a list and as a dict value
    words += ["it's '' \"q\" text long", "'''''\"ab cd ef", 'x\\y\\z \\ w\\', 'tab\there and\tthere', "\xe9'\xe9'\xe9 \"",
              b"it's \"b\" '", b'\x00\x01 binary \xff', 'new\nline in it', '"""""' + "'"]
    vals = list(words) + [[w] for w in words] + [{'k': w} for w in words]
    for _ in range(900 if tier == 'quick' else 9000):
        v = rng.choice(words + [1, 2.5, None, (1, 2), 'ab'])
        for _ in range(rng.choice([0, 1, 2, 3, 4, 6])):       # nest it: the deeper, the larger the indentation of the flat bracket
            k = rng.random()
            if k < 0.4:
                v = [v]
            elif k < 0.6:
                v = (v,)
            elif k < 0.75:
                v = {'k': v}
            elif k < 0.9:
                v = [v, rng.choice(words + [3])]
            else:
                v = {rng.choice(['key', 'a']): v, 'z': 1}
        vals.append(v)
    vals += [V.rand_value(rng, budget=rng.choice([3, 6, 10])) for _ in range(300 if tier == 'quick' else 3000)]
    # sequences around the long-sequence shortcut (n = 50 still has a one-line form of 150 columns, n = 51 never has one), bare and nested
    for nn in (48, 49, 50, 51, 52):
        vals += [[0] * nn, tuple(range(nn)), [[1] * nn], ([7] * nn, 2), [rng.randrange(10) for _ in range(nn)], [[3] * nn, [4] * 50]]
    chunks = [vals[i:i + 40] for i in range(0, len(vals), 40)]
    tot = nt = 0
    mism, fails = [], []
    with mp.Pool(min(NCPU, len(chunks))) as pool:
        for n, t, mm, ff in pool.imap_unordered(oneline_chunk, chunks):
            tot += n
            nt += t
            mism.extend(mm)
            fails.extend(ff)
    stats = {'evaluations': tot, 'distinct_nontrivial': nt, 'values': len(vals), 'mismatches': len(mism),
             'samples': [{'value': repr(vals[0])[:200]}, {'value': repr(vals[5])[:200]}],
             'rule': 'strings (splittable, >= 10 characters, both quote kinds, bytes) and scalars nested 0-6 levels deep in lists / tuples / dicts, plus random value trees: '
                     'the rendering at width 100000 is one line of L columns -> the same text at (width, ribbon) in {(L,L), (L+1,L), (L,L+1), (L+3,L+3), (2L,L), (L,2L), (L+40,L+17)}; '
                     'the same layouts compared with the model; non-trivial = values with a one-line rendering'}
    return stats, mism, fails
