"""User subclasses of the built-in types (C08), call-style printed classes (C17) — module level so that printed names resolve."""
import enum
import sys

import prettyprinter as pp

P = sys.modules['prettyprinter.prettyprinter']


def _mk(base, name, override):
    ns = {}
    if override == 'repr':
        ns['__repr__'] = lambda self: '<custom repr of %s>' % name
    elif override == 'str':
        ns['__str__'] = lambda self: '<custom str of %s>' % name
    elif override == 'both':
        ns['__repr__'] = lambda self: 'R!'
        ns['__str__'] = lambda self: 'S!'
    cls = type(name, (base,), ns)
    cls.__module__ = __name__
    cls.__qualname__ = name
    return cls


FAMILY = {}
for _b in (list, tuple, set, frozenset, dict, str, bytes, int, float):
    for _o in ('plain', 'repr', 'str', 'both'):
        _n = '%s_%s' % (_b.__name__.capitalize(), _o)
        _c = _mk(_b, _n, _o)
        globals()[_n] = _c
        FAMILY[(_b, _o)] = _c


class Color(enum.IntEnum):
    RED = 1
    BIG = 10 ** 12


class Geometry:
    """namespace for subclasses whose qualified name has two parts and whose module is the running script (`__main__`): they are
    printed by their qualified name alone, which must keep both parts"""


class Outer:
    """the same for classes nested in an importable module (`subclasses.Outer.NList`)"""


NESTED = {}
for _b in (list, tuple, set, dict, str, int):
    for _where, _mod in ((Geometry, '__main__'), (Outer, __name__)):
        _n = 'N' + _b.__name__.capitalize()
        _c = type(_n, (_b,), {})
        _c.__module__ = _mod
        _c.__qualname__ = _where.__name__ + '.' + _n
        setattr(_where, _n, _c)
        NESTED[(_b, _mod)] = _c


# subclasses defined in a module whose name starts with an underscore (private modules, C accelerator modules): printed with the
# module name exactly as it is
import types as _types
_private = _types.ModuleType('_verif_private')
sys.modules.setdefault('_verif_private', _private)
_private = sys.modules['_verif_private']
for _b in (list, tuple, dict, str, int, set):
    _n = 'P' + _b.__name__.capitalize()
    if not hasattr(_private, _n):
        _c = type(_n, (_b,), {})
        _c.__module__ = '_verif_private'
        _c.__qualname__ = _n
        setattr(_private, _n, _c)
    NESTED[(_b, '_verif_private')] = getattr(_private, _n)

# the classes that claim to live in `__main__` must be found there (pickling between worker processes, evaluation of printed text)
if not hasattr(sys.modules['__main__'], 'Geometry'):
    sys.modules['__main__'].Geometry = Geometry


def make(rng, base, value):
    """an instance of a random subclass of `base` holding `value`"""
    if rng.random() < 0.15 and (base, '__main__') in NESTED:
        return NESTED[(base, rng.choice(['__main__', __name__, '_verif_private']))](value)
    cls = FAMILY[(base, rng.choice(['plain', 'plain', 'repr', 'str', 'both']))]
    return cls(value)


class BuiltinProxy:
    """stands for a built-in type in the scope in which printed calls are evaluated: `dict.fromkeys(...)` there gives back the
    CallObj that was printed (callee = the real built-in method), while `dict(...)` still builds a dict"""

    def __init__(self, real):
        self._real = real

    def __call__(self, *a, **k):
        return self._real(*a, **k)

    def __getattr__(self, name):
        meth = getattr(self._real, name)
        return lambda *a, **k: CallObj(meth, a, list(k.items()))


BUILTIN_METHODS = [dict.fromkeys, bytes.fromhex, int.from_bytes, str.maketrans, float.fromhex]


# ---- call-style printing (C17) -------------------------------------------------------------

def some_function(*a, **k):
    return CallObj(some_function, a, list(k.items()))


class CallObj:
    """printed through pretty_call_alt(ctx, fn, args, kwargs)"""

    def __init__(self, fn, args, kwargs):
        self.fn, self.args, self.kwargs = fn, tuple(args), list(kwargs)

    def __verif_call__(self):
        import values as V
        return V.Call(self.fn, self.args, self.kwargs)

    def __eq__(self, o):
        return isinstance(o, CallObj) and (self.fn, self.args, self.kwargs) == (o.fn, o.args, o.kwargs)

    def __hash__(self):
        return 7


@pp.register_pretty(CallObj)
def _pretty_callobj(v, ctx):
    # printers hand pretty_call_alt their arguments in every shape the documentation allows: sequences, dicts, and one-shot
    # iterators (the bundled printers themselves pass zip / chain / generator objects); the shape is a function of the object
    shape = (len(v.args) * 7 + len(v.kwargs) * 3 + sum(len(k) for k, _ in v.kwargs)) % 5
    kw = v.kwargs
    if not v.kwargs:
        shape = 0      # an empty one-shot iterator is truthy, which only changes the hugging of a sole argument (layout, not content)
    if shape == 1:
        kw = dict(v.kwargs)
    elif shape == 2:
        kw = ((k, x) for k, x in v.kwargs)
    elif shape == 3:
        kw = zip([k for k, _ in v.kwargs], [x for _, x in v.kwargs])
    elif shape == 4:
        import itertools
        kw = itertools.chain(v.kwargs[:1], v.kwargs[1:])
    args = v.args if shape % 2 == 0 else list(v.args)
    return pp.pretty_call_alt(ctx, v.fn, args=args, kwargs=kw)


class Ctor:
    """a class used as the callable of CallObj: evaluating `subclasses.Ctor(1, x=2)` rebuilds the CallObj"""

    def __new__(cls, *a, **k):
        return CallObj(cls, a, list(k.items()))
