"""C20: a deterministic scheduler that switches threads at *line boundaries inside the package*.

Run as a script in a fresh interpreter (one per worker):  linesched.py <repo> <worker> <nworkers> <tier> <seed>
For every scenario (a set-up that registers printers - directly, lazily by name, by predicate, through the extras - and a
list of values) and every ordered pair (A, B) of its values:

  reference   A then B, and B then A, printed one after the other from the pristine post-set-up state;
  schedule k  thread 1 starts pformat(A); at its k-th line event in a package file it is suspended, thread 2 runs
              pformat(B) to completion, thread 1 resumes (one pre-emption, every k);
  schedule (k, j)  as before, but thread 2 is itself suspended at its j-th package line, thread 1 runs to completion, then
              thread 2 finishes (two pre-emptions, sampled).

Every schedule runs in a forked child of the pristine state, so first-use effects (promotion of lazily registered printers,
memo tables, caches) are live in each one.  A child reports only disagreements:  a call that raised, or a text different
from both sequential references."""
import json
import os
import random
import re
import signal
import sys
import threading
import warnings

ADDR = re.compile(r'0x[0-9a-f]+|id=\d+')


def _canon(t):
    return ADDR.sub('ADDR', t) if isinstance(t, str) else t


class Tracer:
    """counts line events in package files in the thread it is installed in; at event number `at` calls `hook` once"""

    def __init__(self, pkg, at, hook):
        self.pkg, self.at, self.hook = pkg, at, hook
        self.count = 0

    def glob(self, frame, event, arg):
        if frame.f_code.co_filename.startswith(self.pkg):
            return self.local
        return None

    def local(self, frame, event, arg):
        if event == 'line':
            self.count += 1
            if self.count == self.at:
                self.hook()
        return self.local


def _pformat(pp, v, settings, out, slot):
    try:
        with warnings.catch_warnings():
            warnings.simplefilter('ignore')
            out[slot] = pp.pformat(v, **settings)
    except BaseException as e:      # noqa
        out[slot] = 'EXC:' + type(e).__name__ + ':' + str(e)[:80]


def run_schedule(pp, pkg, a, b, settings, k, j=None):
    """returns (text of A, text of B, #package lines of A)"""
    out = [None, None]
    if j is None:
        def hook():
            t = threading.Thread(target=_pformat, args=(pp, b, settings, out, 1))
            t.start()
            t.join()
        tr = Tracer(pkg, k, hook)
        sys.settrace(tr.glob)
        try:
            _pformat(pp, a, settings, out, 0)
        finally:
            sys.settrace(None)
        if tr.count < k or k < 1:         # the switch point was never reached: B simply runs afterwards
            _pformat(pp, b, settings, out, 1)
        return out[0], out[1], tr.count
    parked = threading.Event()      # thread 2 reached its line j (or finished)
    resume = threading.Event()      # thread 1 has finished
    holder = {}

    def b_body():
        def bhook():
            parked.set()
            resume.wait(15)
        trb = Tracer(pkg, j, bhook)
        sys.settrace(trb.glob)
        try:
            _pformat(pp, b, settings, out, 1)
        finally:
            sys.settrace(None)
            parked.set()

    def hook():
        t = threading.Thread(target=b_body)
        holder['t'] = t
        t.start()
        parked.wait(15)
    tr = Tracer(pkg, k, hook)
    sys.settrace(tr.glob)
    try:
        _pformat(pp, a, settings, out, 0)
    finally:
        sys.settrace(None)
        resume.set()
    if 't' in holder:
        holder['t'].join(30)
        if holder['t'].is_alive():
            raise RuntimeError('scheduler: thread 2 did not finish in time (loaded machine?)')      # reported as harness_error, never as a violation
    else:
        _pformat(pp, b, settings, out, 1)
    return out[0], out[1], tr.count


def in_child(fn):
    """run fn() in a forked child; returns its JSON result (None when the child died)"""
    r, w = os.pipe()
    pid = os.fork()
    if pid == 0:
        os.close(r)
        signal.alarm(60)
        try:
            res = fn()
        except BaseException as e:      # noqa
            res = {'harness_error': type(e).__name__ + ':' + str(e)[:200]}
        os.write(w, json.dumps(res).encode())
        os._exit(0)
    os.close(w)
    chunks = []
    while True:
        c = os.read(r, 65536)
        if not c:
            break
        chunks.append(c)
    os.close(r)
    os.waitpid(pid, 0)
    data = b''.join(chunks)
    return json.loads(data) if data else None


def main():
    repo, worker, nworkers, tier, seed = sys.argv[1], int(sys.argv[2]), int(sys.argv[3]), sys.argv[4], int(sys.argv[5])
    here = os.path.dirname(os.path.abspath(__file__))
    sys.path.insert(0, repo)
    sys.path.insert(0, here)
    import prettyprinter as pp
    import thread_scenarios
    pkg = os.path.dirname(os.path.abspath(pp.__file__))
    rng = random.Random(seed * 101 + 7)
    total = 0
    nontrivial = 0
    bad = []
    dist = {}
    job = 0
    for name, setup, settings_list in thread_scenarios.scenarios():
        # every worker handles the whole scenario list but only its share of the (pair, settings) jobs; the set-up of a
        # scenario is done in a child of the bare interpreter so that scenarios do not see each other's registrations
        def scenario_body():
            nonlocal_total = 0
            nt = 0
            out_bad = []
            vals = setup(pp)
            jobno = 0
            lines = {}
            for st in settings_list:
                for ia in range(len(vals)):
                    for ib in range(len(vals)):
                        jobno += 1
                        if jobno % nworkers != worker:
                            continue
                        a, b = vals[ia], vals[ib]
                        ref = in_child(lambda: [run_schedule(pp, pkg, a, b, st, 0)[:2], list(reversed(run_schedule(pp, pkg, b, a, st, 0)[:2]))])
                        if ref is None:
                            continue
                        okA = {_canon(ref[0][0]), _canon(ref[1][0])}
                        okB = {_canon(ref[0][1]), _canon(ref[1][1])}
                        n = in_child(lambda: run_schedule(pp, pkg, a, b, st, -1)[2]) or 0
                        nb = in_child(lambda: run_schedule(pp, pkg, b, a, st, -1)[2]) or 0
                        lines[(ia, ib)] = n
                        ks = list(range(1, n + 1))
                        # quick: 160 sampled switch points per pair - except in the warm scenario, where the window of a race on something
                        # remembered from earlier calls is one line wide: every switch point of the short re-printed values
                        cap = 2500 if (name == 'warm' and ia == 0 and ib == 1) else 1200 if (name, ia, ib) in thread_scenarios.DENSE else 160
                        if tier == 'quick' and len(ks) > cap:
                            ks = sorted(rng.sample(ks, cap))
                        elif tier != 'quick' and len(ks) > 6000:
                            # thorough: every switch point, except for values with tens of thousands of package lines (the long
                            # string lists of the warm scenario), where 3000 are sampled
                            ks = sorted(rng.sample(ks, 3000))
                        scheds = [(k, None) for k in ks]
                        for _ in range(12 if tier == 'quick' else 150):
                            if n and nb:
                                scheds.append((rng.randint(1, n), rng.randint(1, nb)))
                        for (k, j) in scheds:
                            res = in_child(lambda: run_schedule(pp, pkg, a, b, st, k, j)[:2])
                            nonlocal_total += 1
                            if res is None:
                                continue
                            if isinstance(res, dict):
                                if 'did not finish in time' in res['harness_error']:
                                    continue        # this one schedule could not be driven; not a result
                                out_bad.append({'scenario': name, 'harness_error': res['harness_error']})
                                continue
                            ra, rb = _canon(res[0]), _canon(res[1])
                            if ra != ref[0][0] or rb != ref[0][1]:
                                nt += 1
                            if (ra not in okA or rb not in okB) and len(out_bad) < 3:
                                out_bad.append({'scenario': name, 'settings': st, 'value_a': repr(a)[:200], 'value_b': repr(b)[:200],
                                                'suspend_a_at_package_line': k, 'suspend_b_at_package_line': j,
                                                'a_lines': n, 'got': [res[0][:300] if res[0] else res[0], res[1][:300] if res[1] else res[1]],
                                                'sequential': [ref[0][0][:300], ref[0][1][:300]]})
            return {'total': nonlocal_total, 'bad': out_bad, 'lines': sum(lines.values()), 'pairs': len(lines), 'nt': nt}
        res = in_child_long(scenario_body)
        if res is None:
            bad.append({'scenario': name, 'harness_error': 'scenario process died'})
            continue
        total += res['total']
        bad.extend(res['bad'])
        dist[name] = {'pairs': res['pairs'], 'package_lines': res['lines'], 'schedules': res['total']}
    print('@@' + json.dumps({'total': total, 'bad': bad[:6], 'dist': dist}))


def in_child_long(fn):
    r, w = os.pipe()
    pid = os.fork()
    if pid == 0:
        os.close(r)
        try:
            res = fn()
        except BaseException as e:      # noqa
            import traceback
            res = {'total': 0, 'bad': [{'harness_error': traceback.format_exc()[-600:]}], 'lines': 0, 'pairs': 0, 'nt': 0}
        os.write(w, json.dumps(res).encode())
        os._exit(0)
    os.close(w)
    chunks = []
    while True:
        c = os.read(r, 65536)
        if not c:
            break
        chunks.append(c)
    os.close(r)
    os.waitpid(pid, 0)
    data = b''.join(chunks)
    return json.loads(data) if data else None


if __name__ == '__main__':
    main()
