"""C19: pformat is a pure function of the value and the settings; inputs are never modified."""
import collections
import json
import os
import random
import subprocess
import sys
import warnings

from common import REPO, NCPU

import prettyprinter as pp


def snapshot(v, memo=None, depth=0):
    """canonical deep snapshot: types, identity structure (ids renumbered in first-visit order), contents"""
    if memo is None:
        memo = {}
    if depth > 40:
        return '...'
    if isinstance(v, (int, float, str, bytes, type(None), bool, complex)) or v is Ellipsis:
        return (type(v).__name__, repr(v))
    if id(v) in memo:
        return ('ref', memo[id(v)])
    memo[id(v)] = len(memo)
    t = type(v).__name__
    if isinstance(v, dict):
        extra = ()
        if isinstance(v, collections.defaultdict):
            extra = ('factory', repr(v.default_factory))
        return (t, extra, [(snapshot(k, memo, depth + 1), snapshot(x, memo, depth + 1)) for k, x in dict.items(v)])
    if isinstance(v, (list, tuple, collections.deque)):
        extra = getattr(v, 'maxlen', None)
        return (t, extra, [snapshot(x, memo, depth + 1) for x in v])
    if isinstance(v, (set, frozenset)):
        return (t, sorted(repr(snapshot(x, memo, depth + 1)) for x in v))
    if isinstance(v, collections.ChainMap):
        return (t, [snapshot(m, memo, depth + 1) for m in v.maps])
    d = getattr(v, '__dict__', None)
    if isinstance(d, dict):
        return (t, repr(v), [(k, snapshot(x, memo, depth + 1)) for k, x in d.items()])
    return (t, repr(v))


def print_all(values, settings):
    outs = []
    with warnings.catch_warnings():
        warnings.simplefilter('ignore')
        for v in values:
            try:
                outs.append(pp.pformat(v, **settings))
            except Exception as e:
                outs.append('EXC:' + type(e).__name__)
    return outs


import re as _re
_ADDR = _re.compile(r'0x[0-9a-f]+|id=\d+')


def canon(text):
    return _ADDR.sub('ADDR', text)


FRESH = r'''
import sys, json, warnings
sys.path.insert(0, %r); sys.path.insert(0, %r)
import prettyprinter as pp, corpus_values, re
vals = corpus_values.corpus()
idx = json.loads(sys.argv[1]); settings = json.loads(sys.argv[2])
out = {}
with warnings.catch_warnings():
    warnings.simplefilter('ignore')
    for i in idx:
        try: out[i] = pp.pformat(vals[i], **settings)
        except Exception as e: out[i] = 'EXC:' + type(e).__name__
print('@@' + json.dumps(out))
'''


def fresh_outputs(indices, settings):
    """each index printed FIRST in its own fresh interpreter (batched: one process per index)"""
    here = os.path.dirname(os.path.abspath(__file__))
    procs = []
    res = {}
    code = FRESH % (REPO, here)
    pending = list(indices)
    while pending or procs:
        while pending and len(procs) < NCPU:
            i = pending.pop()
            procs.append((i, subprocess.Popen([sys.executable, '-c', code, json.dumps([i]), json.dumps(settings)],
                                              stdout=subprocess.PIPE, stderr=subprocess.DEVNULL, text=True)))
        i, p = procs.pop(0)
        out, _ = p.communicate(timeout=120)
        for line in out.splitlines():
            if line.startswith('@@'):
                res[i] = json.loads(line[2:])[str(i)]
    return res


PAIRS = r"""
import sys, json, os, warnings, re
sys.path.insert(0, %r); sys.path.insert(0, %r)
import prettyprinter as pp, corpus_values
ADDR = re.compile(r'0x[0-9a-f]+|id=\d+')
vals = corpus_values.corpus()
job = json.loads(sys.stdin.read())
firsts, fresh, settings, triples = job['firsts'], job['fresh'], job['settings'], job['triples']
warnings.simplefilter('ignore')
def show(i):
    try: return pp.pformat(vals[i], **settings)
    except Exception as e: return 'EXC:' + type(e).__name__
def report(prefix, j, o):
    if str(j) in fresh and ADDR.sub('ADDR', o) != ADDR.sub('ADDR', fresh[str(j)]):
        os.write(1, ('@@' + json.dumps({'prefix': prefix, 'j': j, 'got': o[:1200]}) + '\n').encode())
n = 0
def branch(prefix, rest_levels):
    # the state reached by printing `prefix` (in this process); fork once per next value
    global n
    for j in (range(len(vals)) if rest_levels == 1 else rest_levels[0]):
        pid = os.fork()
        if pid == 0:
            o = show(j)
            report(prefix, j, o)
            if rest_levels != 1 and len(rest_levels) > 1:
                branch(prefix + [j], rest_levels[1:] if len(rest_levels) > 2 else 1)
            os._exit(0)
        os.waitpid(pid, 0)
        n += 1
for i in firsts:
    pid = os.fork()
    if pid == 0:
        show(i)
        branch([i], 1)
        os.write(1, ('##%%d\n' %% n).encode())
        os._exit(0)
    os.waitpid(pid, 0)
for (i, j) in triples:
    pid = os.fork()
    if pid == 0:
        show(i); show(j)
        branch([i, j], 1)
        os.write(1, ('##%%d\n' %% n).encode())
        os._exit(0)
    os.waitpid(pid, 0)
"""


def fresh_prefix_runs(fresh, settings, triples):
    """Every ordered pair (i, j) of corpus values - and the given (i, j) prefixes followed by every k - printed in that order
    starting from an interpreter that has imported the package and built the corpus but printed nothing (one fork per
    prefix, so nothing printed for one pair is visible to another).  Returns (#final prints, disagreements with `fresh`)."""
    here = os.path.dirname(os.path.abspath(__file__))
    code = PAIRS % (REPO, here)
    n = len(fresh)
    idx = sorted(fresh)
    slices = [idx[k::NCPU] for k in range(NCPU)]
    tslices = [triples[k::NCPU] for k in range(NCPU)]
    procs = []
    for sl, tl in zip(slices, tslices):
        p = subprocess.Popen([sys.executable, '-c', code], stdin=subprocess.PIPE, stdout=subprocess.PIPE, stderr=subprocess.DEVNULL, text=True)
        p.stdin.write(json.dumps({'firsts': sl, 'fresh': {str(k): v for k, v in fresh.items()}, 'settings': settings, 'triples': tl}))
        p.stdin.close()
        procs.append(p)
    total, bad = 0, []
    for p in procs:
        out = p.stdout.read()
        p.wait()
        for line in out.splitlines():
            if line.startswith('@@'):
                bad.append(json.loads(line[2:]))
            elif line.startswith('##'):
                total += int(line[2:])
    return total, bad


def empty_set_indices(vals):
    def has(v, depth=0):
        if depth > 6:
            return False
        if isinstance(v, (set, frozenset)):
            return len(v) == 0
        if isinstance(v, dict):
            return any(has(x, depth + 1) for x in v.values())
        if isinstance(v, (list, tuple)):
            return any(has(x, depth + 1) for x in v)
        return False
    return [i for i, v in enumerate(vals) if has(v)]


def mixed_key_indices(vals):
    """corpus entries holding a dict whose keys are of several types (not orderable among each other): always part of the runs with
    sort_dict_keys=True"""
    def has(v, depth=0):
        if depth > 6:
            return False
        if isinstance(v, dict):
            if len({type(k) for k in v}) > 1 or any(isinstance(k, tuple) for k in v):
                return True          # (tuple keys too: whether two tuples compare depends on their elements)
            return any(has(x, depth + 1) for x in v.values())
        if isinstance(v, (list, tuple)):
            return any(has(x, depth + 1) for x in v)
        return False
    out = []
    for i, v in enumerate(vals):
        try:
            if has(v):
                out.append(i)
        except Exception:
            pass
    return out


def purity_section(tier, seed):
    import corpus_values
    rng = random.Random(seed * 37 + 6)
    vals = corpus_values.corpus()
    settings_list = [{}, {'width': 20}, {'width': 40, 'sort_dict_keys': True}, {'max_seq_len': 2}, {'depth': 1}] if tier == 'quick' else \
        [{}, {'width': 20}, {'width': 40, 'sort_dict_keys': True}, {'width': 10, 'indent': 2}, {'depth': 2}, {'max_seq_len': 3}]
    mism, fails = [], []
    tot = nt = 0
    idx = list(range(len(vals)))
    for st in settings_list:
        chosen = idx if tier == 'thorough' or st == {} else sorted(set(rng.sample(idx, 16)) | set(mixed_key_indices(vals)) | set(empty_set_indices(vals)))
        fresh = fresh_outputs(chosen, st)
        if st == {} or tier == 'thorough':
            # first-print effects: every ordered pair from a state in which nothing has been printed yet (in-process permutations
            # below start from whatever the earlier sections and permutations left behind)
            triples = [(rng.choice(idx), rng.choice(idx)) for _ in range(40 if tier == 'quick' else 400)]
            npairs, bad = fresh_prefix_runs(fresh, st, triples)
            tot += npairs
            nt += len(idx) + len(triples)
            for b in bad[:3]:
                if len(fails) < 3:
                    fails.append({'kind': 'output-depends-on-history', 'value_index': b['j'], 'value': repr(vals[b['j']])[:200], 'settings': st,
                                  'printed_first_in_a_fresh_interpreter': fresh[b['j']][:400], 'printed_after_others': b['got'][:400],
                                  'order_prefix': b['prefix'] + [b['j']], 'fresh_process': True})
        before = [snapshot(v) for v in vals]
        n_perm = 6 if tier == 'quick' else 40
        for _ in range(n_perm):
            order = idx[:]
            rng.shuffle(order)
            order = order + rng.sample(idx, 10)          # repetitions
            outs = print_all([vals[i] for i in order], st)
            tot += len(order)
            for i, o in zip(order, outs):
                if i in fresh and canon(o) != canon(fresh[i]):
                    if len(fails) < 3:
                        fails.append({'kind': 'output-depends-on-history', 'value_index': i, 'value': repr(vals[i])[:200], 'settings': st,
                                      'printed_first_in_a_fresh_interpreter': fresh[i][:400], 'printed_after_others': o[:400],
                                      'order_prefix': order[:order.index(i) + 1]})
            nt += 1
        after = [snapshot(v) for v in vals]
        for i, (a, b) in enumerate(zip(before, after)):
            if a != b and len(fails) < 3:
                fails.append({'kind': 'input-mutated', 'value_index': i, 'value': repr(vals[i])[:200], 'settings': st,
                              'before': repr(a)[:400], 'after': repr(b)[:400]})
    # calls with DIFFERENT settings interleaved in one interpreter (the same width with another ribbon_width among them): the text of a
    # call depends on its own settings only, not on the settings of the calls before it
    mixed = [{}, {'ribbon_width': 30}, {'width': 40}, {'width': 40, 'ribbon_width': 40}, {'width': 79, 'ribbon_width': 60}, {'width': 20, 'indent': 2}]
    sample = sorted(set(rng.sample(idx, 10)) | {i for i, v in enumerate(vals) if isinstance(v, str) and len(v) > 40} | {i for i, v in enumerate(vals) if isinstance(v, list) and len(v) > 20} |
                    {i for i, v in enumerate(vals) if type(v) in (list, dict, tuple) and len(v) <= 2 and any(isinstance(x, str) and 35 <= len(x) <= 60 for x in (v.values() if isinstance(v, dict) else v))})
    fresh_by = [fresh_outputs(sample, st) for st in mixed]
    for _ in range(4 if tier == 'quick' else 30):
        calls = [(rng.choice(sample), rng.randrange(len(mixed))) for _ in range(60)]
        for (i, k) in calls:
            o = print_all([vals[i]], mixed[k])[0]
            tot += 1
            if i in fresh_by[k] and canon(o) != canon(fresh_by[k][i]) and len(fails) < 3:
                fails.append({'kind': 'output-depends-on-history', 'value_index': i, 'value': repr(vals[i])[:200], 'settings': mixed[k],
                              'printed_first_in_a_fresh_interpreter': fresh_by[k][i][:400], 'printed_after_others': o[:400],
                              'history': 'calls with other settings (widths, ribbon widths, indents) came before in the same interpreter'})
        nt += 1
    stats = {'evaluations': tot, 'distinct_nontrivial': nt, 'corpus': len(vals), 'settings': len(settings_list), 'mismatches': 0, 'mixed_settings_histories': True,
             'samples': [{'value': repr(vals[30])[:100]}, {'value': repr(vals[33])[:100]}],
             'rule': 'a corpus of %d values (built-ins, cycles, shared substructure, both zeros, stdlib types, unregistered objects) printed (a) as every ordered pair, and sampled triples, from a forked state in which nothing has been printed, (b) in random '
                     'permutations with repetitions under %d settings; every output compared with the one obtained when that value is printed first in a '
                     'fresh interpreter; canonical deep snapshots (types, identity structure, defaultdict keys, deque order) before and after; '
                     'non-trivial = permutations' % (len(vals), len(settings_list))}
    return stats, mism, fails
