"""/repo source --ast--> lean/PP/Generated.lean : the finite tables and constants the theorems depend on.
Re-run on every check; the file is only rewritten when its content changes (so lake rebuilds only then)."""
import ast
import os

from common import REPO, LEAN


def _parse(rel):
    return ast.parse(open(os.path.join(REPO, rel)).read())


def token_members():
    """names of syntax.Token members, in definition order"""
    tree = _parse('prettyprinter/syntax.py')
    for node in tree.body:
        if isinstance(node, ast.ClassDef) and node.name == 'Token':
            out = []
            for st in node.body:
                if isinstance(st, ast.Assign):
                    for t in st.targets:
                        if isinstance(t, ast.Name):
                            out.append(t.id)
            return out
    raise ValueError('Token enum not found')


def color_table_keys():
    """keys of _SYNTAX_TOKEN_TO_PYGMENTS_TOKEN in color.py"""
    tree = _parse('prettyprinter/color.py')
    for node in ast.walk(tree):
        if isinstance(node, ast.Assign) and any(isinstance(t, ast.Name) and t.id == '_SYNTAX_TOKEN_TO_PYGMENTS_TOKEN' for t in node.targets):
            keys = []
            for k in node.value.keys:
                if isinstance(k, ast.Attribute) and isinstance(k.value, ast.Name) and k.value.id == 'Token':
                    keys.append(k.attr)
            return keys
    raise ValueError('token table not found')


def emitted_tokens():
    """every Token.X mentioned in the printers (prettyprinter.py, pretty_stdlib.py, extras used by the properties)"""
    names = []
    for rel in ('prettyprinter/prettyprinter.py', 'prettyprinter/pretty_stdlib.py',
                'prettyprinter/extras/dataclasses.py', 'prettyprinter/extras/attrs.py'):
        tree = _parse(rel)
        for node in ast.walk(tree):
            if isinstance(node, ast.Attribute) and isinstance(node.value, ast.Name) and node.value.id == 'Token':
                if node.attr not in names:
                    names.append(node.attr)
    return names


def default_config():
    tree = _parse('prettyprinter/__init__.py')
    for node in tree.body:
        if isinstance(node, ast.Assign) and any(isinstance(t, ast.Name) and t.id == '_default_config' for t in node.targets):
            d = {}
            for k, v in zip(node.value.keys, node.value.values):
                d[k.value] = ast.unparse(v)
            return d
    raise ValueError('_default_config not found')


def signature_params(fn_name):
    tree = _parse('prettyprinter/__init__.py')
    for node in tree.body:
        if isinstance(node, ast.FunctionDef) and node.name == fn_name:
            return [a.arg for a in node.args.args] + [a.arg for a in node.args.kwonlyargs]
    raise ValueError(fn_name)


def int_constant(rel, name):
    tree = _parse(rel)
    for node in ast.walk(tree):
        if isinstance(node, ast.Assign) and any(isinstance(t, ast.Name) and t.id == name for t in node.targets):
            return ast.literal_eval(node.value)
    raise ValueError(name)


SETTINGS = ['indent', 'width', 'depth', 'ribbon_width', 'max_seq_len', 'sort_dict_keys']


MUTATORS = {'add', 'append', 'appendleft', 'pop', 'popleft', 'popitem', 'update', 'setdefault', 'clear', 'remove', 'discard', 'insert', 'extend',
            'extendleft', 'register', 'sort', 'reverse', '__setitem__', '__delitem__', 'move_to_end'}
CACHING_DECORATORS = {'lru_cache', 'cache', 'cached_property', 'singledispatch'}


def package_files():
    out = []
    root = os.path.join(REPO, 'prettyprinter')
    for d, _, fs in sorted(os.walk(root)):
        for f in sorted(fs):
            if f.endswith('.py'):
                out.append(os.path.relpath(os.path.join(d, f), REPO))
    return out


def _is_mutable_display(v):
    return isinstance(v, (ast.Dict, ast.List, ast.Set, ast.ListComp, ast.DictComp, ast.SetComp)) or (
        isinstance(v, ast.Call) and isinstance(v.func, ast.Name) and v.func.id in ('dict', 'list', 'set', 'defaultdict', 'OrderedDict', 'deque', 'Counter',
                                                                                    'WeakKeyDictionary', 'WeakValueDictionary', 'WeakSet', 'bytearray'))


def shared_state():
    """Inventory of the state in the package that outlives one call, as far as the syntax shows it:
      <file>:global:<name>     a module-level name rebound from inside a function (`global` statement)
      <file>:mutated:<name>    a module-level name that a function mutates in place (item / attribute store or delete, mutating method call)
      <file>:decorator:<name>  a function wrapped by lru_cache / cache / cached_property / singledispatch
      <file>:default:<fn>      a mutable default argument
      <file>:classattr:<Class>.<name>  a mutable display in a class body
    Everything the hand-written models treat as state must be in this list, and the list must contain nothing else
    (PP/Props/StateInventory.lean)."""
    out = []
    for rel in package_files():
        tree = _parse(rel)
        short = rel[len('prettyprinter/'):]
        modnames = set()
        for node in tree.body:
            targets = []
            if isinstance(node, ast.Assign):
                targets = node.targets
            elif isinstance(node, (ast.AnnAssign, ast.AugAssign)):
                targets = [node.target]
            elif isinstance(node, (ast.FunctionDef, ast.ClassDef)):
                modnames.add(node.name)
            elif isinstance(node, (ast.Import, ast.ImportFrom)):
                for a in node.names:
                    modnames.add((a.asname or a.name).split('.')[0])
            for t in targets:
                for n in ast.walk(t):
                    if isinstance(n, ast.Name):
                        modnames.add(n.id)
        found = set()
        for fn in ast.walk(tree):
            if not isinstance(fn, (ast.FunctionDef, ast.AsyncFunctionDef, ast.Lambda)):
                continue
            if not isinstance(fn, ast.Lambda):
                for dec in fn.decorator_list:
                    d = dec.func if isinstance(dec, ast.Call) else dec
                    name = d.attr if isinstance(d, ast.Attribute) else getattr(d, 'id', None)
                    if name in CACHING_DECORATORS:
                        found.add('%s:decorator:%s' % (short, fn.name))
                for dflt in list(fn.args.defaults) + [d for d in fn.args.kw_defaults if d is not None]:
                    if _is_mutable_display(dflt):
                        found.add('%s:default:%s' % (short, fn.name))
            # names local to this function (parameters and plain assignments) shadow module names
            local = set()
            args = fn.args
            for a in args.posonlyargs + args.args + args.kwonlyargs + ([args.vararg] if args.vararg else []) + ([args.kwarg] if args.kwarg else []):
                local.add(a.arg)
            globs = set()
            body = fn.body if isinstance(fn.body, list) else [fn.body]
            for st in body:
                for n in ast.walk(st):
                    if isinstance(n, ast.Global):
                        globs.update(n.names)
                    elif isinstance(n, ast.Name) and isinstance(n.ctx, ast.Store):
                        local.add(n.id)
                    elif isinstance(n, ast.arg):
                        local.add(n.arg)
            local -= globs
            for g in globs:
                found.add('%s:global:%s' % (short, g))

            def base_name(e):
                while isinstance(e, (ast.Attribute, ast.Subscript)):
                    e = e.value
                return e.id if isinstance(e, ast.Name) else None
            for st in body:
                for n in ast.walk(st):
                    tgt = None
                    if isinstance(n, (ast.Subscript, ast.Attribute)) and isinstance(n.ctx, (ast.Store, ast.Del)):
                        tgt = base_name(n.value)
                    elif isinstance(n, ast.Call) and isinstance(n.func, ast.Attribute) and n.func.attr in MUTATORS:
                        tgt = base_name(n.func.value)
                    if tgt and tgt in modnames and tgt not in local and tgt != 'self':
                        found.add('%s:mutated:%s' % (short, tgt))
        for cls in ast.walk(tree):
            if isinstance(cls, ast.ClassDef):
                for st in cls.body:
                    if isinstance(st, ast.Assign) and _is_mutable_display(st.value):
                        for t in st.targets:
                            if isinstance(t, ast.Name) and not (t.id.startswith('__') and t.id.endswith('__')):
                                found.add('%s:classattr:%s.%s' % (short, cls.name, t.id))
        # a module-level iterator / generator is state by nature: every use advances it
        for node in tree.body:
            if isinstance(node, ast.Assign):
                v = node.value
                is_iter = isinstance(v, ast.GeneratorExp) or (
                    isinstance(v, ast.Call) and (getattr(v.func, 'id', None) or getattr(v.func, 'attr', None)) in
                    ('iter', 'cycle', 'count', 'repeat', 'zip', 'map', 'filter', 'enumerate', 'chain', 'islice', 'reversed'))
                if is_iter:
                    for t in node.targets:
                        if isinstance(t, ast.Name):
                            found.add('%s:iterator:%s' % (short, t.id))
        # module-level singledispatch objects (pretty_dispatch = singledispatch(...)) are registries
        for node in tree.body:
            if isinstance(node, ast.Assign) and isinstance(node.value, ast.Call):
                f = node.value.func
                name = f.attr if isinstance(f, ast.Attribute) else getattr(f, 'id', None)
                if name in CACHING_DECORATORS:
                    for t in node.targets:
                        if isinstance(t, ast.Name):
                            found.add('%s:decorator:%s' % (short, t.id))
        out.extend(sorted(found))
    return out


def shipped_printers():
    """every printer the core package registers: '<file>:<target>:<function>' for each register_pretty(...) decorator or
    register_pretty(...)(fn) call in prettyprinter.py and pretty_stdlib.py (the extras register theirs on install)"""
    out = []
    for rel in ('prettyprinter/prettyprinter.py', 'prettyprinter/pretty_stdlib.py'):
        tree = _parse(rel)
        short = rel[len('prettyprinter/'):]

        def is_reg(call):
            return isinstance(call, ast.Call) and isinstance(call.func, ast.Name) and call.func.id == 'register_pretty'

        def target(call):
            if call.args:
                return ast.unparse(call.args[0])
            return ','.join('%s=%s' % (k.arg, ast.unparse(k.value)) for k in call.keywords)
        for node in ast.walk(tree):
            if isinstance(node, ast.FunctionDef):
                if node.name == 'register_pretty':
                    continue
                for dec in node.decorator_list:
                    if is_reg(dec):
                        out.append('%s:%s:%s' % (short, target(dec), node.name))
            elif isinstance(node, ast.Call) and is_reg(node.func) and node.args:
                out.append('%s:%s:%s' % (short, target(node.func), ast.unparse(node.args[0])))
    # the docstring example inside register_pretty is not a registration
    return [x for x in out if not x.endswith(':pretty_ordereddict') or x.startswith('pretty_stdlib.py')]


def timedelta_table():
    """pretty_timedelta as the source has it: the keyword names of its `attrs` list, in order, and every `divmod(x, N)` it performs
    (name of the dividend, constant divisor), in order, and its non-zero integer constants, sorted"""
    tree = _parse('prettyprinter/pretty_stdlib.py')
    fn = next(n for n in ast.walk(tree) if isinstance(n, ast.FunctionDef) and n.name == 'pretty_timedelta')
    attrs, divmods = [], []
    for node in ast.walk(fn):
        if isinstance(node, ast.Assign) and any(isinstance(t, ast.Name) and t.id == 'attrs' for t in node.targets) and isinstance(node.value, ast.List):
            for el in node.value.elts:
                if isinstance(el, ast.Tuple) and el.elts and isinstance(el.elts[0], ast.Constant):
                    attrs.append(str(el.elts[0].value))
    calls = [n for n in ast.walk(fn) if isinstance(n, ast.Call) and isinstance(n.func, ast.Name) and n.func.id == 'divmod' and len(n.args) == 2]
    calls.sort(key=lambda n: (n.lineno, n.col_offset))
    for c in calls:
        divisor = c.args[1].value if isinstance(c.args[1], ast.Constant) and isinstance(c.args[1].value, int) else 0
        divmods.append((ast.unparse(c.args[0]), divisor))
    consts = sorted(n.value for n in ast.walk(fn) if isinstance(n, ast.Constant) and type(n.value) is int and n.value != 0)
    return attrs, divmods, consts


def lean_str_list(xs):
    return '[' + ', '.join('"%s"' % x for x in xs) + ']'


def generate():
    toks = token_members()
    keys = color_table_keys()
    emitted = emitted_tokens()
    cfg = default_config()
    lines = []
    lines.append('/- GENERATED by harness/translator.py from /repo on every run.  Do not edit. -/')
    lines.append('namespace PP.Generated')
    lines.append('')
    lines.append('/-- members of prettyprinter.syntax.Token, in definition order -/')
    lines.append('def tokenNames : List String := ' + lean_str_list(toks))
    lines.append('/-- keys of color._SYNTAX_TOKEN_TO_PYGMENTS_TOKEN -/')
    lines.append('def colorTableKeys : List String := ' + lean_str_list(keys))
    lines.append('/-- every Token.X the printers mention -/')
    lines.append('def emittedTokens : List String := ' + lean_str_list(emitted))
    lines.append('/-- the settings of _default_config (keys) -/')
    lines.append('def defaultConfigKeys : List String := ' + lean_str_list(list(cfg.keys())))
    for fn in ('pformat', 'pprint', 'cpprint', 'set_default_config'):
        ps = [p for p in signature_params(fn) if p in SETTINGS]
        lines.append('def settingsOf_%s : List String := %s' % (fn, lean_str_list(ps)))
    lines.append('def maxPracticalRibbonWidth : Nat := %d' % int_constant('prettyprinter/prettyprinter.py', 'MAX_PRACTICAL_RIBBON_WIDTH'))
    lines.append('def defaultMaxSeqLen : Nat := %s' % cfg.get('max_seq_len', '0'))
    lines.append('def defaultIndent : Nat := %s' % cfg.get('indent', '0'))
    lines.append('/-- state that outlives one call, as far as the syntax of the package shows it (see translator.shared_state) -/')
    lines.append('def sharedState : List String := ' + lean_str_list(shared_state()))
    lines.append('/-- every printer the core package registers (see translator.shipped_printers) -/')
    lines.append('def shippedPrinters : List String := ' + lean_str_list(shipped_printers()))
    attrs, divmods, consts = timedelta_table()
    lines.append('/-- pretty_timedelta: keyword names of `attrs`, every divmod(x, N), non-zero integer constants (see translator.timedelta_table) -/')
    lines.append('def timedeltaAttrs : List String := ' + lean_str_list(attrs))
    lines.append('def timedeltaDivmods : List (String × Nat) := [' + ', '.join('("%s", %d)' % (a, b) for a, b in divmods) + ']')
    lines.append('def timedeltaIntConsts : List Nat := [' + ', '.join(str(c) for c in consts) + ']')
    lines.append('')
    lines.append('end PP.Generated')
    return '\n'.join(lines) + '\n'


def regenerate():
    """returns (ok, message)"""
    path = os.path.join(LEAN, 'PP', 'Generated.lean')
    try:
        text = generate()
    except Exception as e:
        return False, 'translator could not read the source: %r' % (e,)
    old = open(path).read() if os.path.exists(path) else None
    if old != text:
        with open(path, 'w') as f:
            f.write(text)
        return True, 'Generated.lean rewritten'
    return True, ''


if __name__ == '__main__':
    print(generate())
