"""C17 (second half): the dataclasses and attrs extras.  Generated class definitions x instances x layouts; the model
prints the call the *property* prescribes (fields with repr enabled whose value differs from the declared default, or
that have no default, in declaration order)."""
import dataclasses
import multiprocessing as mp
import random
import sys
import warnings

import attr

from common import NCPU
import values as V
from values import Call, settings_sx
import sec_values
from sec_values import impl_piece, settings_for, _driver, ast_of
import sec_stdlib

import prettyprinter as pp

_installed = [False]


def ensure_installed():
    if not _installed[0]:
        with warnings.catch_warnings():
            warnings.simplefilter('ignore')
            pp.install_extras(['dataclasses', 'attrs'], warn_on_error=False)
        _installed[0] = True


@dataclasses.dataclass
class Inner:
    """a dataclass instance as a field value of another one (a printer must not flatten it into a dict)"""
    x: int = 0

    def __verif_call__(self):
        return Call(Inner, (), [('x', self.x)] if self.x != 0 else [])


@attr.s
class InnerAt:
    y = attr.ib(default='d')

    def __verif_call__(self):
        return Call(InnerAt, (), [('y', self.y)] if self.y != 'd' else [])


Inner.__module__ = InnerAt.__module__ = __name__

VALUES = [0, 1, None, '', 'x', [], [1], {}, {'a': 1}, (), 0.0, False, 'a longer string value', list(range(8)), 1000, 2.5, (1, 2), 10 ** 20,
          Inner(3), [Inner(), Inner(5)], {'k': InnerAt('z')}, (InnerAt(), 1)]


def fresh(v):
    """an equal but distinct object where the type allows one (the selection rule is about ==, never about identity)"""
    if isinstance(v, bool) or v is None:
        return v
    if isinstance(v, int):
        return int(str(v))
    if isinstance(v, float):
        return float(repr(v))
    if isinstance(v, str):
        return ''.join(list(v))
    if isinstance(v, tuple):
        return tuple(list(v))
    if isinstance(v, list):
        return list(v)
    if isinstance(v, dict):
        return dict(v)
    if isinstance(v, Inner):
        return Inner(v.x)
    if isinstance(v, InnerAt):
        return InnerAt(v.y)
    return v

FACTORIES = [list, dict, set, lambda: [1]]
NAMES = ['a', 'b', 'ctx', 'fn', 'value', 'items', 'z9']


def gen_class(rng, idx):
    """a class description: kind ('dc' | 'attrs'), list of (name, has_default, default, factory_idx, repr, kw_only_pos)"""
    kind = rng.choice(['dc', 'attrs'])
    n = rng.choice([0, 1, 2, 3, 4])
    names = rng.sample(NAMES, n)
    fields = []
    seen_default = False
    # keyword-only classes (dataclass(kw_only=True), attr.s(kw_only=True)): a field without a default may follow fields with one
    kw_only = rng.random() < 0.25
    for nm in names:
        r = rng.random()
        if r < 0.35 and (kw_only or not seen_default):
            fields.append((nm, 'none', None, None, True))      # a required field hidden from the repr could never be rebuilt
        elif r < 0.75:
            seen_default = True
            fields.append((nm, 'default', rng.choice(VALUES[:5] + [(), 0.0, False, 1000, 2.5, (1, 2), 10 ** 20, 'a longer string value', Inner(3), InnerAt()]), None, rng.random() < 0.85))
        else:
            seen_default = True
            fields.append((nm, 'factory', None, rng.randrange(len(FACTORIES)), rng.random() < 0.85))
    return (kind, 'Gen%d' % idx, fields, rng.random() < 0.3, rng.random() < 0.2, kw_only)


def build_class(desc):
    kind, name, fields, frozen, slots = desc[:5]
    kw_only = len(desc) > 5 and desc[5]
    mod = sys.modules[__name__]
    if hasattr(mod, name):
        return getattr(mod, name)
    if kind == 'dc':
        fs = []
        for (nm, how, default, fi, rp) in fields:
            if how == 'none':
                fs.append((nm, object, dataclasses.field(repr=rp)))
            elif how == 'default':
                fs.append((nm, object, dataclasses.field(default=default, repr=rp)))
            else:
                fs.append((nm, object, dataclasses.field(default_factory=FACTORIES[fi], repr=rp)))
        # pseudo-fields that are not fields: a ClassVar whose current value differs from its declared default, an InitVar with a default
        import typing
        h = sum(map(ord, name)) + len(fields)
        if h % 3 == 0:
            fs.append(('class_level_counter', typing.ClassVar[int], 0))
        if h % 4 == 1:
            fs.append(('init_only', dataclasses.InitVar[int], 0))
        cls = dataclasses.make_dataclass(name, fs, frozen=frozen, slots=slots, kw_only=kw_only)
        if h % 3 == 0:
            cls.class_level_counter = 7
    else:
        at = {}
        for (nm, how, default, fi, rp) in fields:
            if how == 'none':
                at[nm] = attr.ib(repr=rp)
            elif how == 'default':
                at[nm] = attr.ib(default=default, repr=rp)
            else:
                at[nm] = attr.ib(factory=FACTORIES[fi], repr=rp)
        cls = attr.make_class(name, at, frozen=frozen, slots=slots, kw_only=kw_only)
    cls.__module__ = __name__
    cls.__qualname__ = name
    setattr(mod, name, cls)
    return cls


def gen_instance(rng, desc):
    """values for the fields; repr=False fields keep their default so that the printed call can rebuild the instance"""
    vals = {}
    for (nm, how, default, fi, rp) in desc[2]:
        if how == 'none':
            vals[nm] = rng.choice(VALUES)
        elif not rp:
            continue
        elif rng.random() < 0.35:
            continue               # leave at the default
        elif how == 'default' and rng.random() < 0.3:
            vals[nm] = fresh(default)          # equal to the default, but another object
        else:
            vals[nm] = fresh(rng.choice(VALUES))
    return vals


def expected_call(desc, inst, cls):
    """the property's prescription, computed from the class description (not from the extras' code)"""
    kwargs = []
    for (nm, how, default, fi, rp) in desc[2]:
        if not rp:
            continue
        val = getattr(inst, nm)
        if how == 'none':
            show = True
        elif how == 'default':
            show = default != val
        else:
            show = FACTORIES[fi]() != val
        if show:
            kwargs.append((nm, val))
    return Call(cls, (), kwargs)


def fields_sx(desc, inst, cls):
    """(fields <class> ((name) repr kind default value) ...): declaration order, kind 0 = no default, 1 = default, 2 = factory"""
    from docs import cps
    parts = []
    for (nm, how, default, fi, rp) in desc[2]:
        val = sec_stdlib.sx(getattr(inst, nm))
        if how == 'none':
            k, d = 0, 'none'
        elif how == 'default':
            k, d = 1, sec_stdlib.sx(default)
        else:
            k, d = 2, sec_stdlib.sx(FACTORIES[fi]())
        parts.append('((%s) %d %d %s %s)' % (cps(nm), 1 if rp else 0, k, d, val))
    return '(fields %s %s)' % (V.fn_sx(cls), ' '.join(parts))


def extras_chunk(args):
    seed, lo, hi = args
    ensure_installed()
    drv = _driver()
    mism, fails = [], []
    n = nt = 0
    for idx in range(lo, hi):
        rng = random.Random(seed * 100003 + idx)
        desc = gen_class(rng, seed * 100000 + idx)
        try:
            cls = build_class(desc)
        except Exception:
            continue          # an invalid definition (e.g. default after non-default is rejected by the library)
        for _ in range(3):
            kw = gen_instance(rng, desc)
            try:
                inst = cls(**kw)
            except Exception:
                continue
            call = expected_call(desc, inst, cls)
            # the model (PP/Model/Fields.lean) gets the field definitions and the current values and selects what is shown itself;
            # the prescription computed here from the class description must give the same request (cross-check of the spec)
            term = fields_sx(desc, inst, cls)
            spec_term = sec_stdlib.sx(call)
            value = inst
            for wrap in (0, 1):
                top = value if wrap == 0 else [value, 1]
                tterm = term if wrap == 0 else '(seq 0 none %s (int none 1 (49)))' % term
                sets = settings_for(rng, None, 'quick')[::4] + [(4, 200, 200, None, 1000, 0)]
                sets = [s for s in sets if V.ribbon_ok(s[1], s[2])]
                pieces, texts, warned = [], [], False
                for st in sets:
                    p, text, kinds = impl_piece(top, st)
                    pieces.append(p)
                    texts.append(text)
                    n += 1
                    if 'printer-failed' in kinds or 'raised' in kinds:
                        warned = True
                if len(set(texts)) > 1:
                    nt += 1
                g = drv.ask('(pformat %s %s)' % (tterm, ' '.join(settings_sx(*st) for st in sets)))
                if wrap == 0:
                    g_spec = drv.ask('(pformat %s %s)' % (spec_term, ' '.join(settings_sx(*st) for st in sets)))
                    if g_spec != g:
                        mism.append({'class': desc, 'instance_kwargs': repr(kw), 'error': 'model field selection differs from the prescription of the property',
                                     'model_request': term[:600], 'spec_request': spec_term[:600]})
                if g != '(ok ' + ' '.join(pieces) + ')':
                    mism.append({'class': desc, 'instance_kwargs': repr(kw), 'impl': pieces[-1][:600], 'model_request': tterm[:600]})
                if len(fails) < 3:
                    bad = None
                    if warned:
                        bad = 'the extras printer failed internally (repr fallback warning)'
                    else:
                        for st, text in zip(sets, texts):
                            try:
                                got = eval('(' + text + '\n)', {'sec_extras': sys.modules[__name__], 'float': float, 'set': set, 'frozenset': frozenset})
                            except Exception as e:
                                bad = 'printed text does not evaluate (%s): %s' % (type(e).__name__, text[:200])
                                break
                            if got != top:
                                bad = 'evaluates to a different instance: %r vs %r' % (got, top)
                                break
                            # exactly the prescribed fields, in declaration order (evaluation alone cannot see a field that is printed
                            # although it equals its default)
                            import ast as _ast
                            node = _ast.parse('(' + text + '\n)', mode='eval').body
                            if wrap == 1:
                                node = node.elts[0]
                            shown = [k.arg for k in node.keywords] if isinstance(node, _ast.Call) else None
                            want = [k for k, _ in call.kwargs]
                            if shown != want or (isinstance(node, _ast.Call) and node.args):
                                bad = 'printed fields %r, prescribed (repr enabled, no default or value != default, declaration order) %r: %s' % (shown, want, text[:200])
                                break
                    if bad:
                        fails.append({'kind': 'extras-field-selection', 'why': bad, 'class': desc, 'instance_kwargs': repr(kw)})
    return n, nt, mism, fails


FRESH_EXTRAS = r'''
import sys, json, warnings, dataclasses
sys.path.insert(0, %r)
import attr
import prettyprinter as pp

@dataclasses.dataclass
class DC:
    a: int
    b: int = 5

@attr.s
class AT:
    a = attr.ib()
    b = attr.ib(default=5)

out = {}
with warnings.catch_warnings():
    warnings.simplefilter('ignore')
    out['dc_before'] = pp.pformat(DC(1))          # printed once while the extras are not installed yet (plain repr)
    out['at_before'] = pp.pformat(AT(1))
    pp.install_extras(['dataclasses', 'attrs'], warn_on_error=False)
    out['dc_after'] = pp.pformat(DC(1))
    out['at_after'] = pp.pformat(AT(1))
    out['dc_other'] = pp.pformat(DC(2, 6))
print('@@' + json.dumps(out))
'''


def fresh_install_check():
    """installing the extras takes effect for classes that were already printed before (no per-class memo of 'no printer')"""
    import json
    import subprocess
    from common import REPO
    p = subprocess.run([sys.executable, '-c', FRESH_EXTRAS % (REPO,)], stdout=subprocess.PIPE, stderr=subprocess.DEVNULL, text=True, timeout=120)
    for line in p.stdout.splitlines():
        if line.startswith('@@'):
            r = json.loads(line[2:])
            want = {'dc_after': 'DC(a=1)', 'at_after': 'AT(a=1)', 'dc_other': 'DC(a=2, b=6)'}
            bad = {k: r[k] for k, w in want.items() if r[k].replace('__main__.', '') != w}
            if bad:
                return {'kind': 'extras-install-after-first-print', 'why': 'a class printed once before install_extras keeps its old printing afterwards',
                        'observed': r, 'expected_after_install': want}
            return None
    return {'kind': 'extras-install-after-first-print', 'why': 'fresh interpreter produced no result'}


def twin_classes_check():
    """different generated classes with one module and qualified name (a class made per schema by make_dataclass / make_class, a cell run
    again) printed in turn in one interpreter: each instance is printed with the fields of ITS class"""
    ensure_installed()
    bad = []

    def dc(fields):
        c = dataclasses.make_dataclass('Row', fields)
        c.__module__, c.__qualname__ = __name__, 'Row'
        return c

    def at(fields):
        c = attr.make_class('Row', fields)
        c.__module__, c.__qualname__ = __name__, 'Row'
        return c
    variants = [
        ('dataclass', dc([('id', int), ('name', str, dataclasses.field(default='n'))]), dict(id=1, name='x'), 'sec_extras.Row(id=1, name=\'x\')'),
        ('dataclass', dc([('id', int), ('score', float, dataclasses.field(default=0.0)), ('hidden', int, dataclasses.field(default=1, repr=False))]),
         dict(id=2, score=1.5), 'sec_extras.Row(id=2, score=1.5)'),
        ('dataclass', dc([('name', str, dataclasses.field(default='other default'))]), dict(name='n'), "sec_extras.Row(name='n')"),
        ('attrs', at({'id': attr.ib(), 'tag': attr.ib(default='t')}), dict(id=3, tag='u'), "sec_extras.Row(id=3, tag='u')"),
        ('attrs', at({'id': attr.ib(), 'flag': attr.ib(default=False), 'secret': attr.ib(default=0, repr=False)}), dict(id=4, flag=True), 'sec_extras.Row(id=4, flag=True)'),
    ]
    # an attrs class with a default that depends on the instance (@x.default / Factory(takes_self=True)): computed per instance, never
    # remembered per class; and one with an attribute that is not set by __init__ and hidden from the repr (a lazily filled cache slot)
    @attr.s
    class Rect:
        width = attr.ib()
        height = attr.ib()

        @height.default
        def _height_default(self):
            return self.width
    Rect.__module__, Rect.__qualname__ = __name__, 'Rect'
    setattr(sys.modules[__name__], 'Rect', Rect)

    @attr.s
    class Cached:
        key = attr.ib()
        slot = attr.ib(init=False, repr=False)
    Cached.__module__, Cached.__qualname__ = __name__, 'Cached'
    setattr(sys.modules[__name__], 'Cached', Cached)
    for inst, want in ((Rect(3), 'sec_extras.Rect(width=3)'), (Rect(5, 3), 'sec_extras.Rect(width=5, height=3)'), (Rect(5), 'sec_extras.Rect(width=5)'),
                       (Rect(3, 5), 'sec_extras.Rect(width=3, height=5)'), (Cached('k'), "sec_extras.Cached(key='k')"), ([Cached(1)], '[sec_extras.Cached(key=1)]')):
        with warnings.catch_warnings(record=True) as w:
            warnings.simplefilter('always')
            try:
                got = pp.pformat(inst, width=200)
            except Exception as e:
                got = 'EXC:' + type(e).__name__
        if got != want or w:
            bad.append({'kind': 'extras-field-selection', 'why': 'printed %r, prescribed %r%s' % (got[:150], want, ' (with a warning: %s)' % str(w[0].message)[:80] if w else ''),
                        'class': type(inst).__name__, 'instance_kwargs': repr(inst)[:80]})
            break
    order = [0, 1, 0, 2, 1, 3, 4, 3, 0]
    for k in order:
        kind, cls, kw, want = variants[k]
        with warnings.catch_warnings(record=True) as w:
            warnings.simplefilter('always')
            try:
                got = pp.pformat(cls(**kw), width=200)
            except Exception as e:
                got = 'EXC:' + type(e).__name__
        if got != want or w:
            bad.append({'kind': 'extras-field-selection', 'why': 'classes that share the qualified name sec_extras.Row printed in turn: the %s variant %d is printed as %r, expected %r%s' % (
                kind, k, got[:150], want, ' (with a warning)' if w else ''), 'class': 'Row variant %d' % k, 'instance_kwargs': repr(kw)})
            break
    return bad


def extras_section(tier, seed):
    total = 400 if tier == 'quick' else 4000
    step = 25
    chunks = [(seed, i, min(total, i + step)) for i in range(0, total, step)]
    tot = nt = 0
    mism, fails = [], []
    with mp.Pool(min(NCPU, len(chunks))) as pool:
        for a, b, mm, ff in pool.imap_unordered(extras_chunk, chunks):
            tot += a
            nt += b
            mism.extend(mm)
            fails.extend(ff)
    ff = fresh_install_check()
    if ff:
        fails.append(ff)
    fails.extend(twin_classes_check())
    stats = {'evaluations': tot, 'distinct_nontrivial': nt, 'class_definitions': total, 'mismatches': len(mism), 'fresh_interpreter_install_order_checked': True,
             'samples': [{'class': gen_class(random.Random(seed * 100003 + 3), 3)}],
             'rule': 'generated dataclass / attrs class definitions (0-4 fields incl. names ctx and fn; no default / default / default_factory; repr flags; frozen / slots; ClassVar with a changed value and InitVar pseudo-fields) '
                     'x 3 instances x {alone, in a list} x layouts; the model (PP/Model/Fields.lean) receives the field definitions with the current values and selects the shown fields itself, cross-checked with the call the property prescribes; oracle: no failure warning, eval rebuilds an equal instance'}
    return stats, mism, fails
