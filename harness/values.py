"""Python values -> the Lean protocol (PyVal), generators of value trees, and the CPython-side oracles."""
import math
import sys

from common import REPO  # noqa: F401
import docs as DOCS
import sec_strings
from sec_strings import pchars

import prettyprinter  # noqa: F401

P = sys.modules['prettyprinter.prettyprinter']

IMPLICIT = {'__main__', 'builtins'}


def qual(cls_or_fn):
    """(is builtin, dotted name) — computed independently of general_identifier"""
    module, qualname = cls_or_fn.__module__, cls_or_fn.__qualname__
    if module is None and hasattr(cls_or_fn, '__self__'):
        module = type(cls_or_fn.__self__).__module__
    if module in IMPLICIT:
        return (1 if module == 'builtins' else 0, qualname)
    return (0, '%s.%s' % (module, qualname))


def cls_sx(v, base):
    t = type(v)
    if t is base:
        return 'none'
    b, n = qual(t)
    return '(cls %d %s)' % (b, DOCS.cps(n))


def fn_sx(f):
    if isinstance(f, str):
        return '(fn 0 %s)' % DOCS.cps(f)
    b, n = qual(f)
    return '(fn %d %s)' % (b, DOCS.cps(n))


class Call:
    """a value whose printer goes through pretty_call_alt: harness-side description"""

    def __init__(self, fn, args=(), kwargs=()):
        self.fn, self.args, self.kwargs = fn, list(args), list(kwargs)


def val_to_sx(v):
    if isinstance(v, P._CommentedValue):
        return '(cmt %s (%s))' % (val_to_sx(v.value), pchars(v.comment))
    if isinstance(v, P._TrailingCommentedValue):
        return '(trl %s (%s))' % (val_to_sx(v.value), pchars(v.comment))
    if v is None:
        return 'none'
    if v is Ellipsis:
        return 'ellipsis'
    if isinstance(v, bool):
        return '(bool %d)' % (1 if v else 0)
    if isinstance(v, int):
        return '(int %s %d (%s))' % (cls_sx(v, int), int(v), DOCS.cps(int.__repr__(v)))
    if isinstance(v, float):
        c = cls_sx(v, float)
        if v == math.inf:
            return '(float %s 1 () 0 1)' % c
        if v == -math.inf:
            return '(float %s 2 () 0 1)' % c
        if math.isnan(v):
            return '(float %s 3 () 0 1)' % c
        n, d = float(v).as_integer_ratio()
        return '(float %s 0 (%s) %d %d)' % (c, DOCS.cps(float.__repr__(v)), n, d)
    if isinstance(v, str):
        return '(str %s 0 (%s))' % (cls_sx(v, str), pchars(str.__getitem__(v, slice(None))))
    if isinstance(v, bytes):
        return '(str %s 1 (%s))' % (cls_sx(v, bytes), pchars(bytes.__getitem__(v, slice(None))))
    if isinstance(v, list):
        return '(seq 0 %s%s)' % (cls_sx(v, list), ''.join(' ' + val_to_sx(x) for x in v))
    if isinstance(v, tuple):
        return '(seq 1 %s%s)' % (cls_sx(v, tuple), ''.join(' ' + val_to_sx(x) for x in v))
    if isinstance(v, set):
        return '(seq 2 %s%s)' % (cls_sx(v, set), ''.join(' ' + val_to_sx(x) for x in list(v)))
    if isinstance(v, frozenset):
        return '(fset %s%s)' % (cls_sx(v, frozenset), ''.join(' ' + val_to_sx(x) for x in list(v)))
    if isinstance(v, dict):
        return '(dict %s%s)' % (cls_sx(v, dict), ''.join(' (%s %s)' % (val_to_sx(k), val_to_sx(x)) for k, x in v.items()))
    if isinstance(v, Call):
        return '(call %s (%s) (%s))' % (fn_sx(v.fn), ' '.join(val_to_sx(a) for a in v.args),
                                         ' '.join('((%s) %s)' % (DOCS.cps(k), val_to_sx(x)) for k, x in v.kwargs))
    desc = getattr(v, '__verif_call__', None)
    if desc is not None:
        return val_to_sx(desc())
    return '(opaque %s)' % DOCS.cps(repr(v))


def settings_sx(indent, width, ribbon, depth, msl, sort):
    return '(%d %d %d %d %d %d)' % (indent, width, ribbon, -1 if depth is None else depth, -1 if msl is None else msl, 1 if sort else 0)


def ribbon_ok(width, ribbon):
    """the float glue of python_to_sdocs + best_layout equals min(width, ribbon) for this pair"""
    frac = min(1.0, ribbon / width)
    return max(0, min(width, round(frac * width))) == max(0, min(width, ribbon))


# ---- structural equality with types (C01 oracle) --------------------------------------------

def same(a, b):
    if type(a) is not type(b):
        return False
    if isinstance(a, float):
        if math.isnan(a) or math.isnan(b):
            return math.isnan(a) and math.isnan(b)
        return a == b and math.copysign(1.0, a) == math.copysign(1.0, b)
    if isinstance(a, (list, tuple)):
        return len(a) == len(b) and all(same(x, y) for x, y in zip(a, b))
    if isinstance(a, (set, frozenset)):
        if len(a) != len(b):
            return False
        bl = list(b)
        for x in a:
            for i, y in enumerate(bl):
                if same(x, y):
                    del bl[i]
                    break
            else:
                return False
        return True
    if isinstance(a, dict):
        return len(a) == len(b) and all(same(k1, k2) and same(v1, v2) for (k1, v1), (k2, v2) in zip(a.items(), b.items()))
    return a == b


def strip_comments(v):
    while isinstance(v, (P._CommentedValue, P._TrailingCommentedValue)):
        v = v.value
    if type(v) in (list, tuple):
        return type(v)(strip_comments(x) for x in v)
    if type(v) in (set, frozenset):
        return type(v)(strip_comments(x) for x in v)
    if type(v) is dict:
        return {strip_comments(k): strip_comments(x) for k, x in v.items()}
    if type(v).__name__ == 'CallObj':
        return type(v)(v.fn, tuple(strip_comments(a) for a in v.args), [(k, strip_comments(x)) for k, x in v.kwargs])
    return v


# ---- generators -------------------------------------------------------------------------------

LEAVES = [0, -1, 10 ** 20, True, None, Ellipsis, 1.5, -0.0, 0.0, float('inf'), float('nan'), '', 'a', "'", '"\'', '\\', '\n', '\xe9',
          '\x00', b'', b"'\xff", 'ab cd']


def hashable(v):
    try:
        hash(v)
        return True
    except TypeError:
        return False


def rand_value(rng, depth=0, budget=20, hash_only=False):
    if depth > 5 or budget <= 1 or rng.random() < 0.3:
        r = rng.random()
        if r < 0.55:
            return rng.choice(LEAVES)
        if r < 0.7:
            return rng.randint(-10 ** rng.randint(0, 25), 10 ** rng.randint(0, 25))
        if r < 0.8:
            return rng.choice([0.1, 1e100, -2.5e-7, 3.0, float('-inf'), 1e16, 123456.789, 0.0, -0.0, 1.0, -1.0])
        k = rng.choice([3, 8, 15, 30, 70])
        alpha = "ab cd,ef.gh'\"\\\n\té中 "
        if rng.random() < 0.7:
            return ''.join(rng.choice(alpha) for _ in range(k))
        return bytes(rng.choice([32, 39, 34, 92, 97, 98, 0, 10, 200, 255]) for _ in range(k))
    n = rng.choice([0, 1, 1, 2, 2, 3, 4, 6])
    kind = rng.choice(['tuple', 'frozenset'] if hash_only else ['list', 'tuple', 'set', 'frozenset', 'dict', 'dict'])
    if kind == 'list':
        return [rand_value(rng, depth + 1, budget // max(1, n)) for _ in range(n)]
    if kind == 'tuple':
        return tuple(rand_value(rng, depth + 1, budget // max(1, n), hash_only) for _ in range(n))
    if kind in ('set', 'frozenset'):
        items = []
        for _ in range(n):
            x = rand_value(rng, depth + 1, budget // max(1, n), True)
            if hashable(x) and not (isinstance(x, float) and x != x):
                items.append(x)
        return set(items) if kind == 'set' else frozenset(items)
    d = {}
    for _ in range(n):
        k = rand_value(rng, depth + 2, 3, True)
        if hashable(k) and not (isinstance(k, float) and k != k):
            d[k] = rand_value(rng, depth + 1, budget // max(1, n))
    return d


def small_trees(max_size, leaves):
    """all value trees with <= max_size nodes over list / tuple / dict(value only, key from a small set) / set"""
    by = {1: list(leaves)}
    from docs import _compositions
    import itertools
    for n in range(2, max_size + 1):
        out = []
        for comp in _compositions(n - 1):
            for kids in itertools.product(*[by[c] for c in comp]):
                out.append(list(kids))
                out.append(tuple(kids))
                if all(hashable(k) and not (isinstance(k, float) and k != k) for k in kids):
                    s = set(kids)
                    if len(s) == len(kids):
                        out.append(s)
                        out.append(frozenset(kids))
                # dict with keys 0..k-1 / short strings
                keys = ['k%d' % i if i % 2 else i for i in range(len(kids))]
                out.append(dict(zip(keys, kids)))
        out.extend([[], (), set(), frozenset(), {}] if n == 2 else [])
        by[n] = out
    return by
