"""C18: configuration layers and entry points vs the Lean model M5."""
import io
import multiprocessing as mp
import random
import sys
import warnings

from common import Driver, NCPU
import values as V
from values import val_to_sx
import docs as DOCS

import prettyprinter as pp

PKG = sys.modules['prettyprinter']

DOM = {
    'indent': [2, 4, 8],
    'width': [20, 40, 79, 100],
    'ribbon_width': [10, 30, 71],
    'depth': [None, 1, 2],
    'max_seq_len': [None, 2, 1000],
    'sort_dict_keys': [False, True],
}
ORDER = ['indent', 'width', 'ribbon_width', 'depth', 'max_seq_len', 'sort_dict_keys']

class Odd:
    """no registered printer: printed as its repr, which ends in blanks and line breaks (the two renderers must trim alike)"""
    def __init__(self, text):
        self.text = text

    def __repr__(self):
        return self.text


VALUES = [
    {'b': [1, 2, 3, 4, 5, 6], 'a': 'x' * 30, 'c': {'n': {'m': (1, 2)}}},
    Odd('Odd 1 2 \n\n'), Odd('trailing blanks   '), [Odd('inner \n'), 1],
    [[1, [2, [3, [4]]]], 'word ' * 12, {3: 'c', 1: 'a', 2: 'b'}],
    list(range(30)),
]


def _deep(n):
    v = ['leaf']
    for i in range(n):
        v = [v, i]
    return v


# nesting deep enough that broken lines are indented far beyond any page width (every renderer must write the same indentation)
VALUES.append(_deep(24))


def ex_sx(e):
    out = []
    for k in ORDER:
        if k not in e:
            out.append('unset')
        elif e[k] is None:
            out.append('none')
        elif isinstance(e[k], bool):
            out.append('1' if e[k] else '0')
        else:
            out.append(str(e[k]))
    return '(' + ' '.join(out) + ')'


def rand_explicit(rng, keys, p=0.5):
    return {k: rng.choice(DOM[k]) for k in keys if rng.random() < p}


class ChunkStream:
    """a writer that collects chunks and has a length: falsy until something was written"""
    def __init__(self):
        self.chunks = []

    def write(self, text):
        self.chunks.append(text)
        return len(text)

    def __len__(self):
        return len(self.chunks)

    def getvalue(self):
        return ''.join(self.chunks)


class Registered:
    """a registered type whose __repr__ is pretty_repr"""
    __repr__ = pp.pretty_repr

    def __init__(self, payload):
        self.payload = payload

    def __verif_call__(self):
        return V.Call(Registered, (self.payload,), [])


@pp.register_pretty(Registered)
def _pretty_registered(v, ctx):
    return pp.pretty_call_alt(ctx, Registered, args=(v.payload,))


class RegisteredSub(Registered):
    """no printer of its own: printed by the printer of its base class, also through the inherited __repr__ = pretty_repr"""


class ByName:
    """registered by dotted name (pending until first used), __repr__ = pretty_repr"""
    __repr__ = pp.pretty_repr

    def __init__(self, payload):
        self.payload = payload


@pp.register_pretty(ByName.__module__ + '.' + ByName.__qualname__)
def _pretty_byname(v, ctx):
    return pp.pretty_call_alt(ctx, ByName, args=(v.payload,))


class ByNameSub(ByName):
    pass


_late = [0]
_drv = None


def _driver():
    global _drv
    if _drv is None:
        _drv = Driver()
    return _drv


def effective(defaults_seq, explicit):
    """independent computation of the effective settings (spec of the property)"""
    d = {'indent': 4, 'width': 79, 'ribbon_width': 71, 'depth': None, 'max_seq_len': 1000, 'sort_dict_keys': False}
    for u in defaults_seq:
        for k, v in u.items():
            d[k] = v
    e = dict(d)
    e.update(explicit)
    return d, e


def chunk_fn(cases):
    drv = _driver()
    mism, fails = [], []
    n = nt = 0
    original = dict(PKG._default_config)
    for (vi, sets, explicit, end) in cases:
        value = VALUES[vi]
        d_spec, e_spec = effective(sets, explicit)
        if not V.ribbon_ok(e_spec['width'], e_spec['ribbon_width']) or not V.ribbon_ok(d_spec['width'], d_spec['ribbon_width']):
            continue
        obs = {}
        try:
            PKG._default_config = dict(original)
            for u in sets:
                pp.set_default_config(**u)
            obs['defaults'] = dict(pp.get_default_config())
            with warnings.catch_warnings():
                warnings.simplefilter('ignore')
                obs['pformat'] = pp.pformat(value, **explicit)
                s1 = io.StringIO()
                pp.pprint(value, stream=s1, end=end, **explicit)
                obs['pprint'] = s1.getvalue()
                # a stream given explicitly is the stream written to, whatever its truth value (a chunk collector with __len__ is
                # falsy while empty); nothing may go to sys.stdout instead
                cs, fake_out = ChunkStream(), io.StringIO()
                real_out, sys.stdout = sys.stdout, fake_out
                try:
                    pp.pprint(value, stream=cs, end=end, **explicit)
                    cs2 = ChunkStream()
                    pp.PrettyPrinter(stream=cs2, end=end, **explicit).pprint(value)
                finally:
                    sys.stdout = real_out
                obs['pprint(falsy stream)'] = [cs.getvalue(), cs2.getvalue(), fake_out.getvalue()]
                s2 = io.StringIO()
                pp.cpprint(value, stream=s2, end=end, **explicit)
                obs['cpprint'] = s2.getvalue()
                obs['PrettyPrinter.pformat'] = pp.PrettyPrinter(**explicit).pformat(value)
                s3 = io.StringIO()
                pp.PrettyPrinter(stream=s3, end=end, **explicit).pprint(value)
                obs['PrettyPrinter.pprint'] = s3.getvalue()
                obs['pformat(all six explicit)'] = pp.pformat(value, **e_spec)
                obs['pretty_repr'] = repr(Registered(value))
                obs['pformat(Registered)'] = pp.pformat(Registered(value))
                # the same entry point for a subclass of a registered type and for types registered by name (repr first: the entry is
                # pending when pretty_repr looks the type up)
                pp.register_pretty(ByName.__module__ + '.' + ByName.__qualname__)(_pretty_byname)
                obs['pretty_repr(others)'] = [repr(RegisteredSub(value)), repr(ByNameSub(value)), repr(ByName(value))]
                obs['pformat(others)'] = [pp.pformat(RegisteredSub(value)), pp.pformat(ByNameSub(value)), pp.pformat(ByName(value))]
                # a type whose repr is taken once BEFORE its printer is registered (plain object repr, with a warning), then registered:
                # from then on pretty_repr must use the printer like every other entry point (no remembered "has no printer")
                _late[0] += 1
                Late = type('Late%d' % _late[0], (), {'__repr__': pp.pretty_repr, '__init__': lambda self, p: setattr(self, 'payload', p)})
                LateSub = type('LateSub%d' % _late[0], (Late,), {})
                with warnings.catch_warnings():
                    warnings.simplefilter('ignore')
                    repr(Late(value))
                    repr(LateSub(value))
                pp.register_pretty(Late)(lambda v, ctx, _c=Late: pp.pretty_call_alt(ctx, 'Late', args=(v.payload,)))
                obs['pretty_repr(late)'] = [repr(Late(value)), repr(LateSub(value))]
                obs['pformat(late)'] = [pp.pformat(Late(value)), pp.pformat(LateSub(value))]
        except Exception as e:
            obs['error'] = '%s: %s' % (type(e).__name__, e)
        finally:
            PKG._default_config = dict(original)
        n += 1
        if sets and explicit:
            nt += 1
        # model
        req = '(entry (%s) %s %s (%s))' % (' '.join(ex_sx(u) for u in sets), ex_sx(explicit), val_to_sx(value), DOCS.cps(end))
        g = drv.ask(req)
        req2 = '(entry (%s) %s %s ())' % (' '.join(ex_sx(u) for u in sets), ex_sx({}), val_to_sx(Registered(value)))
        g2 = drv.ask(req2)
        if 'error' in obs:
            mism.append({'case': (vi, sets, explicit, end), 'impl': obs['error'], 'model': g[:200]})
            fails.append({'kind': 'entry-point-raises', 'case': (vi, sets, explicit, end), 'error': obs['error']})
            continue
        dflt = obs['defaults']
        on = lambda x: 'none' if x is None else str(x)
        exp_tail = '(defaults %d %d %d %s %s %d) (effective %d %d %d %s %s %d))' % (
            dflt['indent'], dflt['width'], dflt['ribbon_width'], on(dflt['depth']), on(dflt['max_seq_len']), 1 if dflt['sort_dict_keys'] else 0,
            e_spec['indent'], e_spec['width'], e_spec['ribbon_width'], on(e_spec['depth']), on(e_spec['max_seq_len']), 1 if e_spec['sort_dict_keys'] else 0)
        exp = '(ok %s %s ' % (DOCS.sx_str('pformat', obs['pformat']), DOCS.sx_str('pprint', obs['pprint']))
        # pretty_repr part of g is for the plain value with defaults; compare separately below
        gparts = g.split(' (pretty_repr')
        model_head = gparts[0] + ' '
        model_tail = g[g.index('(defaults'):] if '(defaults' in g else ''
        ok = (model_head == exp) and (model_tail == exp_tail)
        if not ok:
            mism.append({'case': (vi, sets, explicit, end), 'impl': (exp + exp_tail)[:900], 'model': g[:900]})
        # pretty_repr / Registered through the model
        if '(pretty_repr' in g2:
            m_pr = g2[g2.index('(pretty_repr'):g2.index(' (defaults')]
            if m_pr != DOCS.sx_str('pretty_repr', obs['pretty_repr']):
                mism.append({'case': (vi, sets, 'pretty_repr'), 'impl': obs['pretty_repr'][:300], 'model': m_pr[:600]})
        # the property on the implementation itself: all entry points agree
        bad = None
        if obs['pprint'] != obs['pformat'] + end:
            bad = 'pprint != pformat + end'
        elif obs['cpprint'] != obs['pformat'] + end and '\x1b' not in obs['cpprint']:
            bad = 'cpprint (colour off) != pformat + end'
        elif obs['pprint(falsy stream)'] != [obs['pformat'] + end, obs['pformat'] + end, '']:
            bad = 'pprint / PrettyPrinter.pprint with a stream that is falsy while empty: the stream got %r and %r, sys.stdout got %r' % tuple(x[:60] for x in obs['pprint(falsy stream)'])
        elif obs['PrettyPrinter.pformat'] != obs['pformat']:
            bad = 'PrettyPrinter.pformat != pformat'
        elif obs['PrettyPrinter.pprint'] != obs['pformat'] + end:
            bad = 'PrettyPrinter.pprint != pformat + end'
        elif obs['pretty_repr'] != obs['pformat(Registered)']:
            bad = 'pretty_repr != pformat for a registered type'
        elif obs['pretty_repr(others)'] != obs['pformat(others)']:
            bad = 'pretty_repr != pformat for a subclass of a registered type / a type registered by name: %r vs %r' % (obs['pretty_repr(others)'], obs['pformat(others)'])
        elif obs['pretty_repr(late)'] != obs['pformat(late)']:
            bad = 'pretty_repr != pformat for a type registered after its first repr: %r vs %r' % (obs['pretty_repr(late)'], obs['pformat(late)'])
        elif obs['pformat(all six explicit)'] != obs['pformat']:
            bad = 'an explicit argument is not honoured or a missing one does not take the configured default: pformat(v, **given) != pformat(v, **effective)'
        elif dflt != d_spec:
            bad = 'get_default_config %r != the settings given to set_default_config %r' % (dflt, d_spec)
        if bad and len(fails) < 3:
            fails.append({'kind': 'entry-points-disagree', 'why': bad, 'case': (vi, sets, explicit, end),
                          'observed': {k: (v if not isinstance(v, str) else v[:200]) for k, v in obs.items()}})
    return n, nt, mism, fails


def config_section(tier, seed):
    rng = random.Random(seed * 41 + 8)
    cases = []
    n = 1500 if tier == 'quick' else 20000
    for _ in range(n):
        sets = [rand_explicit(rng, ORDER[1:], rng.choice([0.2, 0.5])) for _ in range(rng.choice([0, 0, 1, 2, 3]))]
        explicit = rand_explicit(rng, ORDER, rng.choice([0.0, 0.3, 0.7, 1.0]))
        cases.append((rng.randrange(len(VALUES)), sets, explicit, rng.choice(['\n', '', 'END'])))
    # the default-limit boundary: explicit None must not be replaced by the default
    cases.append((2, [], {'max_seq_len': None}, '\n'))
    cases.append((2, [{'max_seq_len': 3}], {'max_seq_len': None}, '\n'))
    cases.append((0, [{'depth': 1}], {'depth': None}, '\n'))
    cases.append((0, [{'width': 40}], {}, '\n'))
    cases.append((0, [{'width': 40}, {'width': 100}], {'width': 79}, '\n'))
    chunks = [cases[i:i + 60] for i in range(0, len(cases), 60)]
    tot = nt = 0
    mism, fails = [], []
    with mp.Pool(min(NCPU, max(1, len(chunks)))) as pool:
        for a, b, mm, ff in pool.imap_unordered(chunk_fn, chunks):
            tot += a
            nt += b
            mism.extend(mm)
            fails.extend(ff)
    stats = {'evaluations': tot, 'distinct_nontrivial': nt, 'mismatches': len(mism),
             'samples': [{'set_default_config_calls': cases[3][1], 'explicit': cases[3][2], 'end': cases[3][3]}],
             'rule': 'random sequences of 0-3 set_default_config calls x explicit/defaulted subsets of the six settings over small domains x 3 values x '
                     '{pformat, pprint, cpprint (colour off), PrettyPrinter.pformat/pprint, pretty_repr} x end strings; compared with the model and with each other; '
                     'non-trivial = cases with both a changed default and an explicit argument'}
    return stats, mism, fails


# ---------------------------------------------------------------------------------------------
# long histories in ONE interpreter: many set_default_config calls, the same few argument combinations asked again and again
# (whatever is remembered between calls - merged settings, contexts - must be the one for the defaults in force now)

def history_chunk(args):
    seed, n_hist, length = args
    rng = random.Random(seed)
    drv = _driver()
    mism, fails = [], []
    n = nt = 0
    original = dict(PKG._default_config)
    combos = [{}, {'width': 45}, {'indent': 2}, {'max_seq_len': 3, 'depth': 2}, {'sort_dict_keys': True}, {'ribbon_width': 20, 'width': 60}]
    probe = VALUES[0]
    for h in range(n_hist):
        pp.set_default_config(**{k: v for k, v in original.items() if k != 'indent'})
        sets = [{k: v for k, v in original.items() if k != 'indent'}]
        my_combos = rng.sample(combos, rng.choice([1, 2, 3]))
        # printers constructed NOW, used later: what they were not given is looked up when they print, not when they were built
        early = {ex_sx(c): pp.PrettyPrinter(**c) for c in my_combos}
        for step in range(length):
            if rng.random() < 0.5:
                u = rand_explicit(rng, ORDER[1:], rng.choice([0.2, 0.5]))
                d_try, _ = effective(sets + [u], {})
                if not V.ribbon_ok(d_try['width'], d_try['ribbon_width']):
                    continue
                pp.set_default_config(**u)
                sets.append(u)
                continue
            explicit = rng.choice(my_combos)
            vi = rng.choice([0, 0, 4, 5])
            value = VALUES[vi]
            d_spec, e_spec = effective(sets, explicit)
            if not V.ribbon_ok(e_spec['width'], e_spec['ribbon_width']):
                continue
            n += 1
            if len(sets) > 3:
                nt += 1
            bad = None
            try:
                with warnings.catch_warnings():
                    warnings.simplefilter('ignore')
                    got = pp.pformat(value, **explicit)
                    want = pp.pformat(value, **e_spec)
                    s1 = io.StringIO()
                    pp.pprint(value, stream=s1, end='', **explicit)
                    via_class = pp.PrettyPrinter(**explicit).pformat(value)
                    via_early = early[ex_sx(explicit)].pformat(value)
                    rep = repr(Registered(probe)) if not explicit else None
                    rep_want = pp.pformat(Registered(probe), **d_spec) if not explicit else None
                dflt = dict(pp.get_default_config())
            except Exception as e:
                bad = 'raises %s: %s' % (type(e).__name__, e)
                got = want = None
            if bad is None:
                if got != want:
                    bad = 'pformat(v, **given) != pformat(v, **effective settings after %d set_default_config calls)' % (len(sets) - 1)
                elif s1.getvalue() != want:
                    bad = 'pprint(v, **given) != pformat(v, **effective settings)'
                elif via_class != want:
                    bad = 'PrettyPrinter(**given).pformat(v) != pformat(v, **effective settings)'
                elif via_early != want:
                    bad = 'a PrettyPrinter(**given) constructed before the defaults were changed prints with the defaults of its construction time, not with those in force'
                elif rep != rep_want:
                    bad = 'pretty_repr != pformat with the defaults in force'
                elif dflt != d_spec:
                    bad = 'get_default_config %r != what the set_default_config calls so far give %r' % (dflt, d_spec)
            if bad:
                if len(fails) < 3:
                    fails.append({'kind': 'stale-settings-in-a-long-history', 'why': bad, 'history': sets[1:], 'explicit': explicit, 'value_index': vi,
                                  'effective': e_spec, 'observed': (got or '')[:300], 'expected': (want or '')[:300]})
                break
            # the model on the same history (a sample: the request carries the whole history)
            if rng.random() < 0.15:
                g = drv.ask('(entry (%s) %s %s ())' % (' '.join(ex_sx(u) for u in sets), ex_sx(explicit), val_to_sx(value)))
                exp = '(ok %s ' % DOCS.sx_str('pformat', got)
                if not g.startswith(exp):
                    mism.append({'case': (vi, sets[1:], explicit), 'impl': exp[:600], 'model': g[:600]})
    PKG._default_config = dict(original)
    return n, nt, mism, fails


class Blank:
    """a value whose registered printer returns the empty document"""


pp.register_pretty(Blank)(lambda v, ctx: '')


def blank_value_check():
    """a value that is printed as nothing at all: every entry point still writes exactly pformat's text (the empty string) + end"""
    bad = []
    for end in ('\n', 'END', ''):
        for v, label in ((Blank(), 'Blank()'), ([Blank()], '[Blank()]')):
            want = pp.pformat(v) + end
            outs = {}
            s1 = io.StringIO(); pp.pprint(v, stream=s1, end=end); outs['pprint'] = s1.getvalue()
            s2 = io.StringIO(); pp.cpprint(v, stream=s2, end=end); outs['cpprint'] = s2.getvalue()
            s3 = io.StringIO(); pp.PrettyPrinter(stream=s3, end=end).pprint(v); outs['PrettyPrinter.pprint'] = s3.getvalue()
            for k, got in outs.items():
                if got != want and '\x1b' not in got:
                    bad.append({'kind': 'entry-points-disagree', 'why': '%s(%s, end=%r) wrote %r, pformat + end is %r' % (k, label, end, got, want), 'case': label})
    return bad[:3]


def history_section(tier, seed):
    n_chunks = NCPU
    n_hist = 6 if tier == 'quick' else 60
    length = 60 if tier == 'quick' else 120
    tot = nt = 0
    mism, fails = [], []
    with mp.Pool(n_chunks) as pool:
        for a, b, mm, ff in pool.imap_unordered(history_chunk, [(seed * 1009 + i, n_hist, length) for i in range(n_chunks)]):
            tot += a
            nt += b
            mism.extend(mm)
            fails.extend(ff)
    fails = list(fails) + blank_value_check()
    stats = {'evaluations': tot, 'distinct_nontrivial': nt, 'mismatches': len(mism), 'histories': n_chunks * n_hist, 'steps_per_history': length,
             'rule': 'histories of %d steps in one interpreter without resets: set_default_config calls (random subsets of five settings) interleaved with '
                     'pformat / pprint / PrettyPrinter / pretty_repr of a few recurring argument combinations; every observation must equal pformat with all six '
                     'effective settings given explicitly (independent bookkeeping) and get_default_config must report the bookkeeping; a sample of the '
                     'observations is also compared with the model on the whole history; non-trivial = observations after more than three default changes' % length}
    return stats, mism, fails
