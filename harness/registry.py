"""Per-property wiring: theorems to audit, correspondence sections, failing-input search, known findings."""
import random

import common
from common import Driver
import docs as DOCS
from docs import to_sx


# ---------------------------------------------------------------------------------------------
# engine (C04, C05, C06)

def _render_oracle(impl_piece):
    """the last clause of C04 on the implementation's own stream and text: the rendered text is the concatenation of the stream's text
    fragments, each line break written as a newline plus its indentation, and differs from it only by trailing whitespace removed
    from lines.  Returns a description of the difference or None."""
    from common import parse_sx
    try:
        sx = parse_sx(impl_piece)
    except Exception:
        return None
    sd, text = sx[0], sx[1]
    if not sd or sd[0] != 'sdocs' or not text or text[0] != 'text':
        return None
    rendered = ''.join(chr(int(c)) for c in text[1:])
    raw_lines, cur = [], ''
    for it in sd[1:]:
        if it[0] == 'l':
            raw_lines.append(cur)
            cur = ' ' * int(it[1])
        elif it[0] == 't':
            cur += ''.join(chr(int(c)) for c in it[1:])
    raw_lines.append(cur)
    if any('\n' in l for l in raw_lines):
        return None         # a text fragment with a newline of its own: lines cannot be told apart (not produced by the printers)
    got = rendered.split('\n')
    if len(got) != len(raw_lines):
        return 'the stream has %d lines, the rendered text %d: %r vs %r' % (len(raw_lines), len(got), '\n'.join(raw_lines)[:200], rendered[:200])
    for i, (r, g) in enumerate(zip(raw_lines, got)):
        if not r.startswith(g) or r[len(g):].strip() != '':
            return 'line %d of the stream is %r, rendered as %r' % (i, r[:120], g[:120])
    return None


def _engine_oracle(m, drv, strict_matters=True):
    """classify one model/implementation disagreement on a document: returns a failing-input payload or None"""
    if 'impl' not in m or 'doc' not in m:
        return {'kind': 'engine-error', **{k: (str(v) if k == 'doc' else v) for k, v in m.items()}}
    impl = m['impl']
    if impl.startswith('(error'):
        return {'kind': 'engine-raises', 'doc': m['doc'], 'w': m['w'], 'frac': m['frac'], 'smart': m['smart'], 'impl': impl}
    sd = impl[1:impl.index(' (text')]
    bad_render = _render_oracle(impl)
    if bad_render:
        return {'kind': 'renderer-alters-text', 'doc': m['doc'], 'w': m['w'], 'frac': m['frac'], 'rw': m['rw'], 'smart': m['smart'],
                'impl_sdocs': sd[:600], 'what': bad_render}
    basic = drv.ask('(chk 0 %s %s)' % (to_sx(m['doc']), sd))
    if basic == '(ok 0)':
        return {'kind': 'engine-not-a-layout', 'doc': m['doc'], 'w': m['w'], 'frac': m['frac'], 'rw': m['rw'], 'smart': m['smart'],
                'impl_sdocs': sd, 'what': 'the emitted stream is not a rendering of the document under any flat/broken assignment'}
    strict = drv.ask('(chk 1 %s %s)' % (to_sx(m['doc']), sd))
    if strict == '(ok 0)':
        return {'kind': 'engine-strict', 'doc': m['doc'], 'w': m['w'], 'frac': m['frac'], 'rw': m['rw'], 'smart': m['smart'],
                'impl_sdocs': sd, 'what': 'a group containing forced-break content was laid out flat'}
    return None


def _written_indent_oracle(m):
    """C05 on a model / code disagreement, from the document as written (sec_engine.written_indent_overflow)"""
    from common import parse_sx
    import sec_engine
    if 'impl' not in m or 'doc' not in m or m['impl'].startswith('(error'):
        return None
    try:
        sd = parse_sx(m['impl'])[0]
    except Exception:
        return None
    lines, cur = [], [0, '']
    for it in sd[1:]:
        if it[0] == 'l':
            lines.append(cur)
            cur = [int(it[1]), '']
        elif it[0] == 't':
            cur[1] += ''.join(chr(int(c)) for c in it[1:])
    lines.append(cur)
    r = sec_engine.written_indent_overflow(m['doc'], int(m['w']), int(m['rw']), lines)
    if r is None:
        return None
    return {'kind': 'engine-flat-overflow', 'doc': m['doc'], 'w': m['w'], 'frac': m['frac'], 'rw': m['rw'], 'smart': m['smart'],
            'detail': r, 'what': 'a group laid out flat sits on a line that exceeds the page width or the ribbon measured from the indentation the '
                                  'group has in the document as written'}


def engine_section(classic=False, oracle='C04'):
    def run(tier, seed, rep):
        import sec_engine
        stats, mism = sec_engine.engine_section(tier, seed, classic=classic)
        fails = []
        if mism:
            import common
            import findings
            known = common.load_findings()
            prop = {'C04': 'C04', 'C05': 'C05'}.get(oracle, 'C04')
            drv = Driver()
            n_known = 0
            try:
                for m in mism[:400]:
                    f = _engine_oracle(m, drv)
                    if f is None and oracle == 'C05':
                        f = _written_indent_oracle(m)
                    if f is not None:
                        # failing inputs of a listed known class (K1: a bare hardline inside a flat group) must not use up the quota
                        # and hide others behind them
                        if findings.match_known(prop, f, known) is not None or findings.match_known('C04', f, known) is not None:
                            n_known += 1
                            if n_known <= 2:
                                fails.append(f)
                            continue
                        fails.append(f)
                        if len(fails) - min(n_known, 2) >= 3:
                            break
            finally:
                drv.close()
            # unknown ones first: check.py looks at the first few only
            fails.sort(key=lambda f: 0 if (findings.match_known(prop, f, known) is None and findings.match_known('C04', f, known) is None) else 1)
        return stats, mism, fails
    return run


def engine_replay(payload):
    """re-evaluate a recorded engine failing input on the current tree; True if it still fails"""
    f = payload.get('failing_input') or payload.get('first_disagreement')
    if not f or 'doc' not in f:
        return False
    import sec_engine
    import findings
    from fractions import Fraction
    d = findings.tuple_of(f['doc'])
    py = DOCS.to_py(d)
    p, _sd, _t = sec_engine.impl_piece(py, f['w'], Fraction(f['frac']), f['smart'])
    drv = Driver()
    try:
        g = drv.ask('(lay %s (%d %d %d))' % (to_sx(d), f['w'], f['rw'], f['smart']))
        if '(ok ' + p + ')' == g:
            return False
        m = dict(f)
        m['doc'] = d
        m['impl'] = p
        return _engine_oracle(m, drv) is not None or True
    finally:
        drv.close()


def strings_sec():
    def run(tier, seed, rep):
        import sec_strings
        stats, mism, fails = sec_strings.strings_section(tier, seed)
        # classify direct-function disagreements with the property's own oracle
        for m in mism[:300]:
            if 'fn' in m:
                f = sec_strings.oracle_direct(m)
                if f is not None:
                    fails.append(f)
                    if len(fails) >= 3:
                        break
        return stats, mism, fails[:3]
    return run


def values_sec(fn_name, **kw):
    def run(tier, seed, rep):
        import sec_values
        import findings
        stats, mism, fails = getattr(sec_values, fn_name)(tier, seed, **kw)
        known = common.load_findings()
        real, n_known = [], 0
        for f in fails:
            if findings.match_known(rep.prop, f, known) is None:
                real.append(f)
            else:
                n_known += 1
        stats['oracle_failures_in_known_class'] = n_known
        return stats, mism, real[:3]
    return run


VALUE_MODULES = ['PP.Model.PyStr', 'PP.Model.Combinators', 'PP.Model.StrDoc', 'PP.Model.Values']
VALUE_TRUSTED = ['the value printers are modelled by hand (PP/Model/Values.lean, Combinators.lean, StrDoc.lean); the value-level claims below rest on '
                 'C04.sound (engine) + the correspondence + the CPython-side oracle evaluated on every implementation output of this run']

def simple_sec(module, fn_name):
    def run(tier, seed, rep):
        import importlib
        import findings
        mod = importlib.import_module(module)
        stats, mism, fails = getattr(mod, fn_name)(tier, seed)
        known = common.load_findings()
        real, n_known = [], 0
        for f in fails:
            if findings.match_known(rep.prop, f, known) is None:
                real.append(f)
            else:
                n_known += 1
        stats['oracle_failures_in_known_class'] = n_known
        return stats, mism, real[:3]
    return run


ENGINE_MODULES = ['PP.Model.Doc', 'PP.Model.Normalize', 'PP.Model.Layout', 'PP.Model.Render', 'PP.Spec.Lay',
                  'PP.Proofs.LayNormalize', 'PP.Proofs.Sound']

def oracle_sec(which):
    def run(tier, seed, rep):
        import sec_engine
        import findings
        stats, fails = sec_engine.oracle_section(tier, seed, which)
        known = common.load_findings()
        real = []
        n_known = 0
        for f in fails:
            if findings.match_known(rep.prop, f, known) is None:
                real.append(f)
            else:
                n_known += 1
        stats['failures_in_known_class'] = n_known
        return stats, [], real[:3]
    return run


REGISTRY = {
    'C04': {
        'theorems': ['PP.C04.sound', 'PP.C04.sound_plain', 'PP.C04.sound_pformat', 'PP.C04.sound_str', 'PP.Pr.evalStr_bounded',
                     'PP.C04.ann_balanced', 'PP.C04.ann_balanced_pformat', 'PP.C04.render_trim', 'PP.checkLay_sound', 'PP.checkLay_iff',
                     'PP.lay_normalize', 'PP.run_sound', 'PP.Doc.size_normalize'],
        'modules': ENGINE_MODULES + ['PP.Proofs.EvBound', 'PP.Proofs.CheckSound', 'PP.Props.C04'],
        'sections': [{'name': 'engine', 'run': engine_section(classic=False)}],
        'replay': engine_replay,
        'rule': 'engine correspondence: exhaustive small documents x widths x ribbon fractions x strategies, plus seeded random documents',
        'assumptions': ['ribbon_frac values are restricted to those on which CPython\'s float product agrees with exact rational arithmetic (counted in the evidence)',
                        'lazy normalisation of FlatChoice is modelled as a pure function (DESIGN section 4/M1); the enumeration includes flat alternatives containing always_break and shared sub-documents'],
    },
    'C05': {
        'theorems': ['PP.C05.rest_of_line', 'PP.C05.flat_iff_fits', 'PP.sim', 'PP.fitsE_mono', 'PP.fitsFast_eq_fitsE', 'PP.smart_imp_fast'],
        'modules': ENGINE_MODULES + ['PP.Proofs.FitsE', 'PP.Proofs.Sim', 'PP.Props.C05'],
        'sections': [{'name': 'engine-classic', 'run': engine_section(classic=True, oracle='C05')},
                     {'name': 'flat-overflow-oracle', 'run': oracle_sec('C05')}],
        'replay': engine_replay,
        'rule': 'classic-algebra engine correspondence + the flat-group overflow oracle evaluated on the implementation (group decisions recorded by passing a recording fitting predicate to best_layout)',
        'assumptions': ['theorem rest_of_line covers text, concat, nest, group, line, softline, hardline, always_break, annotate; align is covered by the correspondence and the oracle only (named in DESIGN.md)'],
    },
    'C06': {
        'theorems': ['PP.C06.fits_iff_spec', 'PP.C06.broken_only_if', 'PP.C06.flat_only_if', 'PP.fitsE_iff_scan',
                     'PP.C06.smart_iff_demands', 'PP.C06.broken_only_if_smart', 'PP.C06.flat_only_if_smart', 'PP.fitsSmart_iff_demands',
                     'PP.C06.demands_mono', 'PP.C06.fits_mono_smart', 'PP.C06.fits_mono_fast', 'PP.C06.wider_keeps_flat',
                     'PP.C06.wider_keeps_flat_fast', 'PP.C06.flat_if_enough'],
        'modules': ENGINE_MODULES + ['PP.Proofs.FitsE', 'PP.Proofs.Scan', 'PP.Props.C06', 'PP.Proofs.SmartSpec', 'PP.Props.C06b', 'PP.Props.C06c'],
        'sections': [{'name': 'engine-classic', 'run': engine_section(classic=True)},
                     {'name': 'one-line-stable-oracle', 'run': oracle_sec('C06')},
                     {'name': 'values-one-line', 'run': values_sec('oneline_section')}],
        'replay': engine_replay,
        'rule': 'classic-algebra engine correspondence + the one-line-stability oracle evaluated on the implementation',
        'assumptions': ['the smart strategy\'s extra reason (a following, more deeply indented line overflowing) is characterised (C06.broken_only_if_smart) for documents without align; with align it is stated only (the predicate evaluates align at the column it has in mind)'],
    },
    'C02': {
        'theorems': ['PP.C02.lines_join', 'PP.C02.lines_nonempty', 'PP.C02.budget_positive', 'PP.C02.quote_is_quote',
                     'PP.C02.lines_count', 'PP.C02.escape_is_repr', 'PP.C02.unescape_escape', 'PP.C02.pieces_decode',
                     'PP.PyStr.go_join', 'PP.PyStr.go_nonempty', 'PP.PyStr.parseHex_hexN'],
        'modules': ['PP.Model.PyStr', 'PP.Spec.Unescape', 'PP.Proofs.StrLines', 'PP.Proofs.Escape', 'PP.Proofs.RoundTrip', 'PP.Props.C02'],
        'sections': [{'name': 'strings', 'run': strings_sec()}],
        'rule': 'string functions called directly (exhaustive over an adversarial alphabet) and the evaluator of pretty_str through the layout engine',
        'assumptions': ['str.isprintable, \\w and \\s classification of each character are inputs to the model (computed by CPython in the harness); theorems hold for all values of those bits',
                        'repr(str)/repr(bytes) are modelled (reprCharStr/reprCharBytes) and compared with CPython on every case'],
    },
    'C01': {
        'theorems': ['PP.C01.output_reads_back', 'PP.C01.canon_reads_back', 'PP.Tok.canon_reads', 'PP.C03.output_tokens', 'PP.Limits.limits_tokens',
                     'PP.C04.sound_pformat', 'PP.C02.lines_join', 'PP.C02.lines_nonempty', 'PP.C02.unescape_escape', 'PP.C01.sorted_perm',
                     'PP.C01.insertion_order', 'PP.C01.output_reads_back_sorted', 'PP.Tok.inC01_shown', 'PP.C01.canon_reads_back\'', 'PP.C01.output_reads_back\'',
                     'PP.Tok.inC01_inRd', 'PP.Sort.sortK_ordered', 'PP.Sort.sortK_stable'],
        'modules': VALUE_MODULES + ['PP.Props.Values', 'PP.Spec.Tokens', 'PP.Spec.Reader', 'PP.Proofs.Toks', 'PP.Proofs.ToksStr', 'PP.Proofs.ToksComb',
                                    'PP.Proofs.ToksVal', 'PP.Proofs.ReaderRT', 'PP.Props.C03', 'PP.Props.C01b', 'PP.Proofs.Shown',
                                    'PP.Proofs.ShownC01', 'PP.Props.C01c', 'PP.Props.C02', 'PP.Props.C04', 'PP.Props.SortSpec'],
        'sections': [{'name': 'builtin-values', 'run': values_sec('builtin_values_section')},
                     {'name': 'tokens', 'run': values_sec('tokens_section')},
                     {'name': 'reader', 'run': values_sec('reader_section', mode='c01')},
                     {'name': 'mix', 'run': values_sec('mix_section')}],
        'trusted': VALUE_TRUSTED,
        'rule': 'pformat of built-in value trees vs the model (SDoc stream + text), eval oracle with exact types',
    },
    'C03': {
        'theorems': ['PP.C03.layout_invariant', 'PP.C03.output_tokens', 'PP.C03.any_layout_tokens', 'PP.Tok.ctoks_lay',
                     'PP.Tok.evalStr_tokens', 'PP.Tok.toDocW_ok', 'PP.C04.sound_pformat', 'PP.C02.lines_join', 'PP.C02.unescape_escape',
                     'PP.C03.nests_are_indent'],
        'modules': VALUE_MODULES + ['PP.Props.Values', 'PP.Spec.Tokens', 'PP.Proofs.Toks', 'PP.Proofs.ToksStr', 'PP.Proofs.ToksComb',
                                    'PP.Proofs.ToksVal', 'PP.Props.C03', 'PP.Props.C02', 'PP.Props.C04'],
        'sections': [{'name': 'builtin-values', 'run': values_sec('builtin_values_section')},
                     {'name': 'tokens', 'run': values_sec('tokens_section')},
                     {'name': 'comments', 'run': values_sec('comments_section', mode='c03')},
                     {'name': 'subclasses', 'run': values_sec('subclasses_section')},
                     {'name': 'calls', 'run': values_sec('calls_section')},
                     {'name': 'stdlib', 'run': simple_sec('sec_stdlib', 'stdlib_section_c03')},
                     {'name': 'mix', 'run': values_sec('mix_section')}],
        'trusted': VALUE_TRUSTED,
        'rule': 'same syntax tree (ast.dump) across all layout settings of each value; every line indented by a multiple of indent',
    },
    'C08': {
        'theorems': ['PP.C04.sound_pformat', 'PP.C08.wrapper_shape', 'PP.C08.wrapper_seq', 'PP.C08.wrapper_int',
                     'PP.C08.seq_wrapper_tokens', 'PP.C08.dict_wrapper_tokens', 'PP.C08.int_wrapper_tokens', 'PP.C08.str_wrapper_tokens',
                     'PP.C03.output_tokens', 'PP.C08.output_reads_back', 'PP.Tok.canon_reads', 'PP.C08.seq_denotes', 'PP.C08.seq_empty_denotes',
                     'PP.C08.dict_denotes', 'PP.C08.dict_empty_denotes', 'PP.C08.frozenset_denotes', 'PP.C08.int_denotes', 'PP.C08.str_denotes',
                     'PP.C08.float_denotes', 'PP.C08.float_special_denotes'],
        'modules': VALUE_MODULES + ['PP.Props.Values', 'PP.Spec.Tokens', 'PP.Proofs.Toks', 'PP.Proofs.ToksStr', 'PP.Proofs.ToksComb',
                                    'PP.Proofs.ToksVal', 'PP.Props.C03', 'PP.Props.TokensMore', 'PP.Spec.Reader', 'PP.Proofs.ReaderRT', 'PP.Props.C01b', 'PP.Props.C08b', 'PP.Props.C04'],
        'sections': [{'name': 'subclasses', 'run': values_sec('subclasses_section')},
                     {'name': 'reader', 'run': values_sec('reader_section', mode='c08')},
                     {'name': 'mix', 'run': values_sec('mix_section')}],
        'trusted': VALUE_TRUSTED,
        'rule': 'instances of generated subclasses of the nine built-in bases, nested, all layouts; eval reconstructs class and value',
    },
    'C09': {
        'theorems': ['PP.C09.comment_inert', 'PP.C09.trailing_adds_comma', 'PP.Tok.comment_inert', 'PP.C03.output_tokens',
                     'PP.C09.comments_do_not_change_the_reading', 'PP.C09.erase_bare', 'PP.Tok.canon_reads',
                     'PP.C04.sound_pformat', 'PP.C09.commentdoc_lines', 'PP.C09.empty_comment_ignored'],
        'modules': VALUE_MODULES + ['PP.Props.Values', 'PP.Spec.Tokens', 'PP.Proofs.Toks', 'PP.Proofs.ToksStr', 'PP.Proofs.ToksComb', 'PP.Proofs.ToksVal',
                                    'PP.Proofs.Shown', 'PP.Proofs.Comments', 'PP.Props.C03', 'PP.Props.C09b', 'PP.Spec.Reader', 'PP.Proofs.ReaderRT', 'PP.Props.C01b',
                                    'PP.Props.C09c', 'PP.Props.C04'],
        'sections': [{'name': 'comments', 'run': values_sec('comments_section')},
                     {'name': 'fresh-interpreter', 'run': values_sec('fresh_comment_section')},
                     {'name': 'tokens', 'run': values_sec('tokens_section')},
                     {'name': 'mix', 'run': values_sec('mix_section')}],
        'trusted': VALUE_TRUSTED,
        'rule': 'comment / trailing_comment placements, adversarial texts; eval == uncommented value, same ast, words preserved',
    },
    'C10': {
        'theorems': ['PP.Limits.limits_tokens', 'PP.Limits.limit_that_does_not_bite', 'PP.Limits.shown_canon', 'PP.Tok.shown_ok', 'PP.Tok.wf_shown', 'PP.C03.output_tokens',
                     'PP.C04.sound_pformat', 'PP.C10.truncation_text', 'PP.C10.no_limit', 'PP.C10.large_limit', 'PP.C10.output_reads_back',
                     'PP.C10.shown_list_truncated', 'PP.C10.shown_list_full', 'PP.Tok.inRd_shown', 'PP.Tok.canon_reads', 'PP.Limits.output_reads_back'],
        'modules': VALUE_MODULES + ['PP.Props.Values', 'PP.Spec.Tokens', 'PP.Proofs.Toks', 'PP.Proofs.ToksStr', 'PP.Proofs.ToksComb', 'PP.Proofs.ToksVal', 'PP.Proofs.Shown', 'PP.Proofs.NoBite', 'PP.Props.C03', 'PP.Props.Limits', 'PP.Props.NoLimit', 'PP.Props.C04', 'PP.Spec.Reader', 'PP.Proofs.ReaderRT', 'PP.Proofs.ShownRd', 'PP.Props.C10b'],
        'sections': [{'name': 'truncation', 'run': values_sec('truncation_section')},
                     {'name': 'tokens', 'run': values_sec('tokens_section', limits=True)},
                     {'name': 'reader', 'run': values_sec('reader_section', mode='c10')},
                     {'name': 'mix', 'run': values_sec('mix_section')}],
        'trusted': VALUE_TRUSTED,
        'rule': 'container trees x max_seq_len in {1..maxlen+1, None}',
    },
    'C11': {
        'theorems': ['PP.Limits.limits_tokens', 'PP.Limits.limit_that_does_not_bite', 'PP.Limits.shown_canon', 'PP.Tok.shown_ok', 'PP.Tok.wf_shown', 'PP.C03.output_tokens',
                     'PP.C04.sound_pformat', 'PP.C11.depth_zero_placeholder', 'PP.C11.unlimited_never_zero', 'PP.C11.output_reads_back', 'PP.Limits.output_reads_back',
                     'PP.C11.cut_list_denotes', 'PP.C11.cut_tuple_denotes', 'PP.C11.cut_int_denotes', 'PP.Tok.inRd_shown', 'PP.Tok.identPh_read', 'PP.Tok.canon_reads'],
        'modules': VALUE_MODULES + ['PP.Props.Values', 'PP.Spec.Tokens', 'PP.Proofs.Toks', 'PP.Proofs.ToksStr', 'PP.Proofs.ToksComb', 'PP.Proofs.ToksVal', 'PP.Proofs.Shown', 'PP.Proofs.NoBite', 'PP.Props.C03', 'PP.Props.Limits', 'PP.Props.NoLimit', 'PP.Props.C04', 'PP.Spec.Reader', 'PP.Proofs.ReaderRT', 'PP.Proofs.ShownRd', 'PP.Props.C10b'],
        'sections': [{'name': 'depth', 'run': values_sec('depth_section')},
                     {'name': 'tokens', 'run': values_sec('tokens_section', limits=True)},
                     {'name': 'reader', 'run': values_sec('reader_section', mode='c11')},
                     {'name': 'depth-monotone', 'run': values_sec('depth_monotone_section')},
                     {'name': 'mix', 'run': values_sec('mix_section')}],
        'trusted': VALUE_TRUSTED,
        'rule': 'container trees with unique leaves x depth in {0..height+2, None}',
    },
    'C17': {
        'theorems': ['PP.C04.sound_pformat', 'PP.C17.empty_call', 'PP.C17.hug_only_exact', 'PP.C17.call_tokens', 'PP.C17.kw_tokens',
                     'PP.C03.output_tokens', 'PP.C17.fields_shown_iff', 'PP.C17.fields_in_declaration_order', 'PP.C17.fields_rebuild',
                     'PP.C17.hidden_field_rebuilt_from_default', 'PP.C17.instance_tokens', 'PP.C17.output_reads_back', 'PP.C17.call_denotes',
                     'PP.C17.kwargs_denote', 'PP.Tok.canon_reads'],
        'modules': VALUE_MODULES + ['PP.Props.Values', 'PP.Spec.Tokens', 'PP.Proofs.Toks', 'PP.Proofs.ToksStr', 'PP.Proofs.ToksComb',
                                    'PP.Proofs.ToksVal', 'PP.Props.C03', 'PP.Props.TokensMore', 'PP.Model.Fields', 'PP.Props.C17b', 'PP.Spec.Reader', 'PP.Proofs.ReaderRT', 'PP.Props.C01b', 'PP.Props.C08b', 'PP.Props.C04'],
        'sections': [{'name': 'calls', 'run': values_sec('calls_section')},
                     {'name': 'reader', 'run': values_sec('reader_section', mode='c17')},
                     {'name': 'dataclasses-attrs', 'run': simple_sec('sec_extras', 'extras_section')},
                     {'name': 'mix', 'run': values_sec('mix_section')}],
        'trusted': VALUE_TRUSTED,
        'rule': 'objects printed through pretty_call_alt: args/kwargs order, nesting, comments; dataclasses/attrs field selection',
    },
    'C15': {
        'theorems': ['PP.C15.refines', 'PP.C15.no_effect', 'PP.C15.inv_run', 'PP.C15.dispatch_after_isRegistered'],
        'modules': ['PP.Model.Registry', 'PP.Props.C15'],
        'sections': [{'name': 'registry-histories', 'run': simple_sec('sec_registry', 'registry_section')}],
        'rule': 'all operation sequences up to a length bound + random long ones on a diamond / multiple-inheritance lattice',
        'assumptions': ['functools.singledispatch on plain (non-ABC) classes = first class of type.__mro__ present in the registry; type.__mro__ is an input'],
    },
    'C19': {
        'theorems': ['PP.C15.history_independent', 'PP.C15.refines', 'PP.C19.pure_function', 'PP.C19.state_inventory'],
        'modules': ['PP.Model.Registry', 'PP.Props.C15', 'PP.Props.C19', 'PP.Generated', 'PP.Props.StateInventory'],
        'sections': [{'name': 'purity', 'run': simple_sec('sec_purity', 'purity_section')},
                     {'name': 'registry-histories', 'run': simple_sec('sec_registry', 'registry_section')}],
        'rule': 'permutations / repetitions vs fresh-interpreter outputs; deep snapshots before and after',
        'assumptions': ['partial: immutability of the inputs is not expressible over immutable model values; it is checked by snapshots only. '
                        'Not covered: mutation through user __eq__/__hash__/__missing__ side effects, generators'],
    },
    'C20': {
        'theorems': ['PP.C20.linearizable', 'PP.C20.step_inv', 'PP.C19.state_inventory'],
        'modules': ['PP.Model.Registry', 'PP.Model.Threads', 'PP.Props.C20', 'PP.Generated', 'PP.Props.StateInventory'],
        'sections': [{'name': 'schedules', 'run': simple_sec('sec_threads', 'threads_section')},
                     {'name': 'line-preemption', 'run': simple_sec('sec_threads', 'line_section')}],
        'rule': 'all schedules up to a pre-emption bound, switch points at every access to the shared registry state',
        'assumptions': ['partial: the atomicity granularity is one access to the deferred dict / singledispatch object (dict.get, dict.pop, register, dispatch are atomic under the GIL); '
                        'pre-emption inside such an operation, free-threaded builds and cpprint\'s global colour palette are not covered'],
    },
    'C18': {
        'theorems': ['PP.C18.merge_spec', 'PP.C18.explicit_none_is_a_value', 'PP.C18.set_changes_given', 'PP.C18.set_nothing',
                     'PP.C18.after_sets', 'PP.C18.entry_points', 'PP.C18.signatures_agree', 'PP.C18.shipped_defaults'],
        'modules': ['PP.Model.Config', 'PP.Generated', 'PP.Props.C18'],
        'sections': [{'name': 'entry-points', 'run': simple_sec('sec_config', 'config_section')},
                     {'name': 'long-histories', 'run': simple_sec('sec_config', 'history_section')}],
        'rule': 'set_default_config sequences x explicit/defaulted settings x six entry points',
    },
    'C16': {
        'theorems': ['PP.C16.strip', 'PP.C16.innermost', 'PP.C16.ends_reset', 'PP.C16.table_total', 'PP.C16.tokens_exist',
                     'PP.C16.styleOf_total', 'PP.C04.ann_balanced'],
        'modules': ['PP.Model.Color', 'PP.Generated', 'PP.Props.C16', 'PP.Props.C04'],
        'sections': [{'name': 'colour', 'run': simple_sec('sec_color', 'color_section')}],
        'rule': 'coloured rendering of values and annotated documents under every pygments style, colour forced on',
        'assumptions': ['colorful\'s SGR strings and pygments\' style_for_token are opaque to the model: `sgr t` stands for str(styleattrs_to_colorful(style_for_token(token t))); '
                        'that every such string starts with the reset sequence (so writing it sets the state absolutely) is checked over all 32 attribute shapes on every run'],
    },
    'C13': {
        'theorems': ['PP.C13.marker_iff_on_path', 'PP.C13.shared_printed_in_full', 'PP.C13.marker_text', 'PP.C13.no_residue',
                     'PP.Graph.unvisited_lt'],
        'modules': ['PP.Model.Graph', 'PP.Props.C13'],
        'sections': [{'name': 'graphs', 'run': simple_sec('sec_graphs', 'graphs_section')}],
        'rule': 'object graphs of list / dict / tuple nodes; re-printing',
        'assumptions': ['the visited set is modelled as the current DFS path (what the try/finally of the F10 repair guarantees); id() values are inputs'],
    },
    'C14': {
        'theorems': ['PP.C14.contained', 'PP.C14.fault_free', 'PP.C14.independent', 'PP.C14.bad_return', 'PP.C14.bad_return_nested',
                     'PP.C14.run_fault', 'PP.C14.run_noFault'],
        'modules': ['PP.Model.Failures', 'PP.Props.C14'],
        'sections': [{'name': 'failures', 'run': simple_sec('sec_graphs', 'failures_section')}],
        'rule': 'every fault position x exception class x trailing/plain on all small trees of instrumented objects',
    },
    'C12': {
        'theorems': ['PP.C12.layout_quadratic_in_value', 'PP.C12.doc_linear', 'PP.Pr.toDocW_size', 'PP.Pr.rsize_commentdoc',
                     'PP.C12.machine_quadratic', 'PP.C12.fits_linear', 'PP.C12.fits_smart_linear', 'PP.C12.fitsFastC_fst', 'PP.C12.fitsSmartC_fst',
                     'PP.C12.build_linear_partial', 'PP.C12.commented_dict_exponential', 'PP.C12.string_pieces_linear',
                     'PP.Doc.size_normalize', 'PP.C02.budget_positive'],
        'modules': ['PP.Model.Cost', 'PP.Props.C12', 'PP.Proofs.SizeComment', 'PP.Proofs.SizeComb', 'PP.Proofs.SizeVal', 'PP.Props.C12b', 'PP.Props.C02'],
        'leanchecker': True,
        'sections': [{'name': 'step-counts', 'run': simple_sec('sec_cost', 'cost_section')}],
        'rule': 'LINE events inside the package on parametrised families at n, 2n, 4n(, 8n): doubling ratios and steps <= K * model cost',
        'assumptions': ['partial: a theorem cannot see CPython\'s step count; interpreter-level costs not proportional to model steps (string concatenation, list copies, repr of huge ints) are outside the model'],
    },
    'C07': {
        'theorems': ['PP.C07.timedelta', 'PP.C07.timedelta_ranges', 'PP.C07.dropWhile_zero_restores', 'PP.C07.time_fields',
                     'PP.C07.datetime_date_only', 'PP.C07.chainmap_shortcut', 'PP.C07.deque_maxlen', 'PP.C04.sound_pformat', 'PP.C07.printer_inventory',
                     'PP.C07.output_reads_back', 'PP.C07.utc_denotes', 'PP.C07.enum_denotes', 'PP.C07.date_denotes', 'PP.C07.time_inRd',
                     'PP.C07.datetime_inRd', 'PP.C07.timezone_inRd', 'PP.C07.deque_inRd', 'PP.C07.deque_denotes', 'PP.C07.chainmap_inRd',
                     'PP.C07.oneArg_inRd', 'PP.C07.defaultdict_inRd', 'PP.C07.isNumTok_intLit', 'PP.C07.path_denotes',
                     'PP.C07.timedelta_tokens', 'PP.C07.timedelta_reads_back', 'PP.C07.timedelta_pformat_reads_back', 'PP.C07.timedelta_tokens_injective', 'PP.C07.daysDoc_arg',
                     'PP.C07.tdSum_filter', 'PP.C07.TEq.noLit_eq', 'PP.C07.numTok_intLit',
                     'PP.C07.td_attrs_from_source', 'PP.C07.td_attrs_known', 'PP.C07.td_divmods_from_source', 'PP.C07.td_consts_from_source'],
        'modules': VALUE_MODULES + ['PP.Model.Std', 'PP.Props.C07', 'PP.Generated', 'PP.Props.PrinterInventory', 'PP.Props.C04', 'PP.Props.C07b',
                    'PP.Spec.TdReader', 'PP.Props.C07c', 'PP.Props.TdInventory'],
        'sections': [{'name': 'stdlib', 'run': simple_sec('sec_stdlib', 'stdlib_section')},
                     {'name': 'reader', 'run': values_sec('reader_section', mode='c07')},
                     {'name': 'builtin-values', 'run': values_sec('builtin_values_section')},
                     {'name': 'mix', 'run': values_sec('mix_section')}],
        'trusted': VALUE_TRUSTED,
        'rule': 'instances of every stdlib type with a bundled printer, boundary values, nesting contexts, layouts; totality of the built-in printers on value trees',
        'assumptions': ['datetime / timedelta / timezone constructors are modelled by their documented normalisation (integer arithmetic); validated by eval of every printed instance'],
    },
}
