"""C13 (object graphs, visited set) and C14 (printer failures) vs the Lean models M7 / M8."""
import ast
import itertools
import multiprocessing as mp
import random
import re
import sys
import warnings

from common import Driver, NCPU
import docs as DOCS
import values as V
from values import settings_sx

import prettyprinter as pp

P = sys.modules['prettyprinter.prettyprinter']

# ---------------------------------------------------------------------------------------------
# C13: graphs.  A graph spec is a list of (kind, [child, ...]) with child = ('l', int) | ('r', index)


def build_graph(spec):
    """real objects: list / dict / tuple.  Tuples are immutable: they may only refer to lists / dicts with a higher index
    or be closed through a list (the generator guarantees buildability: tuple children are created first)."""
    objs = [None] * len(spec)
    # containers first (mutable), tuples afterwards in an order where their children exist
    for i, (kind, kids) in enumerate(spec):
        if kind == 0:
            objs[i] = []
        elif kind == 1:
            objs[i] = {}
    pending = [i for i, (k, _) in enumerate(spec) if k == 2]
    progress = True
    while pending and progress:
        progress = False
        for i in list(pending):
            kids = spec[i][1]
            if all(c[0] == 'l' or objs[c[1]] is not None for c in kids):
                objs[i] = tuple(c[1] if c[0] == 'l' else objs[c[1]] for c in kids)
                pending.remove(i)
                progress = True
    if pending:
        return None
    for i, (kind, kids) in enumerate(spec):
        if kind == 0:
            objs[i].extend(c[1] if c[0] == 'l' else objs[c[1]] for c in kids)
        elif kind == 1:
            for j, c in enumerate(kids):
                objs[i]['k%d' % j] = c[1] if c[0] == 'l' else objs[c[1]]
    return objs


def graph_sx(spec, objs, root, st):
    nodes = []
    for (kind, kids), o in zip(spec, objs):
        nodes.append('(node %d (%s) (%s))' % (kind, DOCS.cps(str(id(o))), ' '.join('(l %d)' % c[1] if c[0] == 'l' else '(r %d)' % c[1] for c in kids)))
    return '(graph %s %d %s)' % (settings_sx(*st), root, ' '.join(nodes))


def reference_print(spec, root, depth=None, msl=None):
    """independent oracle: bracket / marker token sequence by a path-based DFS; with a depth limit a container that is not an
    ancestor of itself is cut to its bare brackets once the budget is used up (the back-reference test comes first)"""
    out = []

    def go(i, path, left):
        kind, kids = spec[i]
        if i in path:
            out.append('M%d' % i)
            return
        out.append({0: '[', 1: '{', 2: '('}[kind])
        if left is None or left > 0:
            below = None if left is None else left - 1
            # max_seq_len: exactly the first N children are shown (the rest is summarised in a comment, which observed_tokens drops)
            for c in (kids if msl is None or len(kids) <= msl else kids[:msl]):
                if c[0] == 'l':
                    out.extend([str(c[1])] if below != 0 else ['(', ')'])       # an int below the limit prints as int(...)
                else:
                    go(c[1], path | {i}, below)
        out.append({0: ']', 1: '}', 2: ')'}[kind])
    go(root, frozenset(), depth)
    return out


_TOK = re.compile(r"<Recursion on \w+ with id=(\d+)>|[\[\]{}()]|-?\d+")


def observed_tokens(text, objs):
    ids = {str(id(o)): i for i, o in enumerate(objs)}
    out = []
    t2 = re.sub(r"'k\d+':", '', re.sub(r'#[^\n]*', '', text))
    for m in _TOK.finditer(t2):
        if m.group(1) is not None:
            out.append('M%d' % ids.get(m.group(1), -1))
        else:
            out.append(m.group(0))
    return out


def all_graph_specs(n_nodes, leaves=(7,)):
    """all rooted graphs with n nodes of kinds list/dict/tuple with 0..2 children drawn from {leaf} + refs"""
    kid_opts = [('l', leaves[0])] + [('r', j) for j in range(n_nodes)]
    kidlists = [()] + [(a,) for a in kid_opts] + [(a, b) for a in kid_opts for b in kid_opts]
    for kinds in itertools.product([0, 1, 2], repeat=n_nodes):
        for kl in itertools.product(kidlists, repeat=n_nodes):
            yield [(k, list(ks)) for k, ks in zip(kinds, kl)]


def rand_graph(rng, n):
    spec = []
    for i in range(n):
        kind = rng.choice([0, 0, 1, 2])
        kids = []
        for _ in range(rng.choice([0, 1, 2, 3])):
            if rng.random() < 0.3:
                kids.append(('l', rng.randint(0, 99)))
            else:
                kids.append(('r', rng.randrange(n)))
        spec.append((kind, kids))
    return spec


_drv = None


def _driver():
    global _drv
    if _drv is None:
        _drv = Driver()
    return _drv


class _Timeout(BaseException):   # BaseException: must pass through the package's own `except Exception` handlers
    pass


_armed = [False]


def _alarm(signum, frame):
    # the timer keeps firing (a time-out swallowed by the code under test is raised again); once the harness has the result - or the
    # time-out - in hand the alarm is disarmed, so that a late tick cannot hit the harness's own clean-up code
    if _armed[0]:
        raise _Timeout()


def safe_pformat(obj, st, limit=1.5):
    """pformat with a watchdog: a print that raises (incl. RecursionError) or does not finish within `limit` seconds is
    reported as text 'EXC:...' — never crashes or hangs the harness.  These prints take milliseconds; so that a loaded machine
    cannot turn a slow print into an alarm, a print that exceeds the limit is tried once more with twenty times the limit."""
    if _confirmed_hangs[0] >= 3:
        limit = min(limit, 0.3)
    r = _safe_pformat_once(obj, st, limit)
    if r.startswith('EXC:does-not-terminate'):
        if _confirmed_hangs[0] >= 3:
            return r          # three prints of this process already hung for twenty times the limit: the code under test hangs
        r = _safe_pformat_once(obj, st, limit * 20)
        if r.startswith('EXC:does-not-terminate'):
            _confirmed_hangs[0] += 1
    return r


_confirmed_hangs = [0]


def _safe_pformat_once(obj, st, limit):
    import signal
    old = signal.signal(signal.SIGALRM, _alarm)
    try:
        with warnings.catch_warnings():
            warnings.simplefilter('ignore')
            signal.setitimer(signal.ITIMER_REAL, limit, 0.25)
            _armed[0] = True
            try:
                r = pp.pformat(obj, width=st[1], ribbon_width=st[2], depth=st[3], max_seq_len=st[4])
                _armed[0] = False
                return r
            except _Timeout:
                _armed[0] = False
                return 'EXC:does-not-terminate-within-%gs' % limit
            except Exception as e:
                _armed[0] = False
                return 'EXC:' + type(e).__name__
    finally:
        _armed[0] = False
        signal.setitimer(signal.ITIMER_REAL, 0)
        signal.signal(signal.SIGALRM, old)


def graph_chunk(specs):
    drv = _driver()
    mism, fails = [], []
    n = nt = 0
    prev = None
    for spec in specs:
        if len(fails) >= 3:
            break          # enough evidence from this chunk; do not pay the watchdog limit again and again
        objs = build_graph(spec)
        if objs is None:
            continue
        finite = (1, 2, 3, 5)[(len(spec) + sum(len(k) for _, k in spec)) % 4]
        # the last one truncates: a back-reference among the shown children is still cut exactly there, whichever object the printer iterates over
        small = (1, 2, 3)[(len(spec) + 2 * sum(len(k) for _, k in spec)) % 3]
        for st in ((4, 79, 71, None, 1000, 0), (4, 12, 12, None, 1000, 0), (4, 79, 71, finite, 1000, 0), (4, 79, 71, None, small, 0)):
            text = safe_pformat(objs[0], st)
            # no residue: printing again, and printing the previous graph's root again, gives the same
            again = safe_pformat(objs[0], st)
            n += 1
            g = drv.ask(graph_sx(spec, objs, 0, st))
            if g != DOCS.sx_str('ok', text):
                mism.append({'graph': spec, 'settings': st, 'impl': text[:400], 'model': g[:400]})
            bad = None
            if text != again:
                bad = 'printing the same value twice gives different text'
            elif observed_tokens(text, objs) != reference_print(spec, 0, st[3], st[4]):
                bad = 'markers / brackets differ from the path-based reference: %s vs %s' % (observed_tokens(text, objs), reference_print(spec, 0, st[3], st[4]))
            if prev is not None and not bad:
                ptext, pobj, pst = prev
                if safe_pformat(pobj, pst) != ptext:
                    bad = 'printing another value afterwards differs from its first print'
            if bad and len(fails) < 3:
                fails.append({'kind': 'cycle-handling', 'why': bad, 'graph': spec, 'settings': st, 'text': text[:400]})
            if 'Recursion' in text:
                nt += 1
            prev = (text, objs[0], st)
    return n, nt, mism, fails


class Bag(list):
    """a user container printed by a printer that is registered *by name* (pending until its first print, re-armed before every case)"""


class PredBag:
    """a container printed by a predicate printer"""
    def __init__(self, items):
        self.items = list(items)


pp.register_pretty(predicate=lambda v: isinstance(v, PredBag))(lambda v, ctx: pp.pretty_call_alt(ctx, 'PredBag', args=(v.items,)))


def _print_bag(value, ctx):
    return pp.pretty_call_alt(ctx, 'Bag', args=(list(value),))


def byname_and_trailing_cycle_check():
    """(1) cycles through a container whose printer is registered by qualified name: promoted printers take part in the visit
    bookkeeping like directly registered ones.  (2) acyclic values under a trailing comment on types whose printers do not take the
    comment themselves (frozenset, deque, OrderedDict, defaultdict, Counter, ChainMap, mappingproxy): no marker, same text as without."""
    import collections
    import types
    bad = []
    name = Bag.__module__ + '.' + Bag.__qualname__

    def arm():
        pp.register_pretty(name)(_print_bag)

    def case1():
        b = Bag([1])
        inner = [b]
        b.append(inner)
        return b, 'Bag([1, [<Recursion on Bag with id=%d>]])' % id(b)

    def case2():
        lst = []
        b = Bag([lst])
        lst.append(b)
        return lst, '[Bag([<Recursion on list with id=%d>])]' % id(lst)

    def case3():
        b = Bag([1])
        return [b, b], '[Bag([1]), Bag([1])]'

    def case4():
        d = {}
        b = Bag([d])
        d['k'] = b
        return d, "{'k': Bag([<Recursion on dict with id=%d>])}" % id(d)

    def case5():
        b = Bag()
        b.append(b)
        return b, 'Bag([<Recursion on Bag with id=%d>])' % id(b)
    for mk in (case1, case2, case3, case4, case5):
        for again in (False, True):
            if not again:
                arm()          # pending: this print promotes the printer
            v, want = mk()
            got = safe_pformat(v, (4, 200, 200, None, 1000, 0), limit=5)
            if got != want:
                bad.append({'kind': 'cycle-handling', 'why': 'a container printed by a by-name printer (%s): printed %r, expected %r' % (
                    'just promoted' if not again else 'promoted earlier', got[:200], want), 'graph': mk.__name__})
                break
    # ... and through a value printed by a PREDICATE printer (the way the dataclasses / attrs / IPython extras print): it takes part in
    # the visit bookkeeping like any other
    p = PredBag([1])
    inner = [p]
    p.items.append(inner)
    got = safe_pformat(p, (4, 200, 200, None, 1000, 0), limit=5)
    want = 'PredBag([1, [<Recursion on PredBag with id=%d>]])' % id(p)
    if got != want:
        bad.append({'kind': 'cycle-handling', 'why': 'a cycle through a value printed by a predicate printer: printed %r, expected %r' % (got[:200], want), 'graph': 'PredBag -> list -> PredBag'})
    lst = []
    q = PredBag([lst])
    lst.append(q)
    got = safe_pformat(lst, (4, 200, 200, None, 1000, 0), limit=5)
    want = '[PredBag([<Recursion on list with id=%d>])]' % id(lst)
    if got != want:
        bad.append({'kind': 'cycle-handling', 'why': 'a cycle through a value printed by a predicate printer: printed %r, expected %r' % (got[:200], want), 'graph': 'list -> PredBag -> list'})
    shared = PredBag([2])
    got = safe_pformat([shared, shared], (4, 200, 200, None, 1000, 0), limit=5)
    if got != '[PredBag([2]), PredBag([2])]':
        bad.append({'kind': 'cycle-handling', 'why': 'a shared value printed by a predicate printer: printed %r' % got[:200], 'graph': '[p, p]'})
    plain = [frozenset([1, 2]), collections.deque([1, [2]]), collections.OrderedDict([('a', [1])]), collections.defaultdict(list, a=[1]),
             collections.Counter('aab'), collections.ChainMap({'a': 1}, {'b': [2]}), types.MappingProxyType({'m': [1]})]
    for x in plain:
        for wrapv in (lambda y: pp.trailing_comment(y, 'tc'), lambda y: [pp.trailing_comment(y, 'tc'), 1], lambda y: {'k': pp.trailing_comment(y, 'tc')},
                      lambda y: (pp.trailing_comment(y, 'tc'), y)):
            v = wrapv(x)
            got = safe_pformat(v, (4, 200, 200, None, 1000, 0), limit=5)
            if 'Recursion on' in got or got.startswith('EXC:'):
                bad.append({'kind': 'cycle-handling', 'why': 'an acyclic value under a trailing comment is printed with a recursion marker (or fails): %r' % got[:200],
                            'graph': 'trailing comment on %s' % type(x).__name__})
                break
    return bad[:3]


def commented_cycle_check():
    """cycles that run through comment() / trailing_comment() wrappers (a commented dict value is rendered a second time for the
    comment-above layout): at every width printing terminates and the markers sit exactly at the back-references.  Oracle only."""
    def expected(v):
        out = []

        def go(x, path):
            while isinstance(x, (P._CommentedValue, P._TrailingCommentedValue)):
                x = x.value
            if isinstance(x, (list, tuple, dict)):
                if id(x) in path:
                    out.append(str(id(x)))
                    return
                for y in (x.values() if isinstance(x, dict) else x):
                    go(y, path | {id(x)})
        go(v, frozenset())
        return out
    vals = []
    d = {}
    lst = [d, 1]
    d['k'] = pp.comment(lst, 'a comment on the value')
    vals.append(d)
    d2 = {}
    d2['self'] = pp.comment(d2, 'c')
    vals.append(d2)
    d3 = {}
    inner = {'up': d3, 'n': [1, 2]}
    d3['a'] = pp.comment(inner, 'first')
    d3['b'] = pp.comment([inner, d3], 'second comment of several words that will not fit on the line of its key')
    vals.append(d3)
    l4 = []
    l4.append({'k': pp.trailing_comment([l4, 0], 'tc'), 'j': pp.comment((l4,), 'c')})
    vals.append(l4)
    bad = []
    for v in vals:
        want = expected(v)
        for w in (200, 60, 40, 20, 10):
            text = safe_pformat(v, (4, w, w, None, 1000, 0), limit=5)
            if text.startswith('EXC:'):
                bad.append({'kind': 'cycle-handling', 'why': 'printing a cycle through a commented dict value: %s' % text, 'width': w, 'graph': 'commented-cycle %d' % vals.index(v)})
                break
            # a value rendered twice may show its markers twice in the broken layout only if both renderings are laid out, which never
            # happens: exactly one rendering reaches the output
            got = re.findall(r'<Recursion on \w+ with id=(\d+)>', text)
            if got != want:
                bad.append({'kind': 'cycle-handling', 'why': 'markers %s, expected %s (back-references only)' % (got, want), 'width': w,
                            'graph': 'commented-cycle %d' % vals.index(v), 'text': text[:400]})
                break
    return bad[:3]


def graphs_section(tier, seed):
    rng = random.Random(seed * 47 + 12)
    specs = list(all_graph_specs(2))
    if tier == 'thorough':
        specs += rng.sample(list(itertools.islice(all_graph_specs(3), 400000)), 30000)
    else:
        specs = rng.sample(specs, min(len(specs), 3000))
    for _ in range(800 if tier == 'quick' else 8000):
        specs.append(rand_graph(rng, rng.randint(3, 12)))
    # witnesses of classic mistakes: the same container reached twice while being printed; shared acyclic; tuple in the cycle
    specs += [[(0, [('r', 0), ('r', 0)])], [(0, [('r', 1), ('r', 1)]), (0, [('l', 1)])], [(0, [('r', 0), ('r', 1)]), (0, [('r', 0)])],
              [(2, [('r', 1), ('l', 1)]), (0, [('r', 0)])], [(0, [('r', 1)]), (2, [('r', 0), ('l', 1)])], [(1, [('r', 0)])]]
    chunks = [specs[i:i + 100] for i in range(0, len(specs), 100)]
    tot = nt = 0
    mism, fails = [], []
    with mp.Pool(min(NCPU, max(1, len(chunks)))) as pool:
        for a, b, mm, ff in pool.imap_unordered(graph_chunk, chunks):
            tot += a
            nt += b
            mism.extend(mm)
            fails.extend(ff)
    fails.extend(commented_cycle_check())
    fails.extend(byname_and_trailing_cycle_check())
    stats = {'evaluations': tot, 'distinct_nontrivial': nt, 'graphs': len(specs), 'mismatches': len(mism), 'commented_cycles_checked': True,
             'samples': [{'graph': specs[-3]}, {'graph': specs[100]}],
             'rule': 'rooted object graphs of list / dict / tuple nodes: all 2-node graphs with <= 2 children per node (sampled in quick), sampled 3-node graphs (thorough), '
                     'random graphs of 3-12 nodes, witnesses; each printed at two widths and under a finite depth limit (1, 2, 3 or 5), printed again, and followed by re-printing the previous value; '
                     'text compared with the model (real ids substituted), marker/bracket sequence compared with a path-based reference DFS; non-trivial = outputs with a recursion marker'}
    return stats, mism, fails


# ---------------------------------------------------------------------------------------------
# C14: failures


class Obj:
    def __init__(self, cls_id, kids, uid):
        self.cls_id, self.kids, self.uid = cls_id, kids, uid

    def __repr__(self):
        return 'REPR(%d)' % self.uid


_state = {'counter': 0, 'plan': {}}
class CollectedErrors(Exception):
    """a user exception whose instances are falsy (a container of collected errors, raised empty): still an exception"""
    def __len__(self):
        return 0


class OddStr(Exception):
    """a user exception whose str() is odd: empty, with a newline and format characters"""
    def __str__(self):
        return ''


def _safe_str(e):
    try:
        return str(e)
    except Exception:
        return '<str() of the exception failed>'


class BadStr(Exception):
    """a user exception whose str() itself raises (a domain error given the wrong payload)"""
    def __str__(self):
        raise TypeError('cannot describe this error')


EXC = [ValueError, TypeError, KeyError, RuntimeError, ZeroDivisionError, AttributeError, RecursionError, StopIteration, AssertionError,
       NotImplementedError, OSError, MemoryError, CollectedErrors, OddStr, BadStr]
CLASSES = {}


def _make_class(cid):
    with_param = (cid % 2 == 0)
    # class 2 defines __eq__ without __hash__ (as list / dict subclasses and many value classes do): the fallback for a failing printer must not
    # need its value to be hashable
    cls = type('C%d' % cid, (Obj,), {'__eq__': (lambda a, b: a is b), '__hash__': None} if cid == 2 else {})
    cls.__module__ = '__main__'
    cls.__qualname__ = 'C%d' % cid

    def body(value, ctx):
        k = _state['counter']
        _state['counter'] = k + 1
        _state.setdefault('log', []).append((k, cid))
        f = _state['plan'].get(k)
        if f is not None:
            if f[0] == 'raises':
                raise EXC[f[1]]('injected {fault} %%(x)s at %d' % k)
            return 42
        return pp.pretty_call_alt(ctx, cls, args=tuple(value.kids))
    if with_param:
        def printer(value, ctx, trailing_comment=None):
            return body(value, ctx)
    else:
        def printer(value, ctx):
            return body(value, ctx)
    printer.__qualname__ = 'printer_C%d' % cid
    if cid == 3:
        # class 3 is printed through a *predicate* printer (no class registration at all)
        pp.register_pretty(predicate=lambda v, _cls=cls: type(v) is _cls)(printer)
    elif cid == 5:
        # class 5 is registered *by name*: the entry is pending until the first print promotes it; it is re-armed before every case
        # (rearm_by_name), so that the failing invocation may be the very print that promotes the printer
        BY_NAME[cid] = (cls.__module__ + '.' + cls.__qualname__, printer)
        pp.register_pretty(BY_NAME[cid][0])(printer)
    else:
        pp.register_pretty(cls)(printer)
    return cls


BY_NAME = {}


def rearm_by_name():
    for key, printer in BY_NAME.values():
        pp.register_pretty(key)(printer)


for _c in range(1, 6):
    CLASSES[_c] = _make_class(_c)


class Reentrant(Obj):
    """the documented idiom `__repr__ = pretty_repr`: the repr fallback of a failing printer re-enters the pretty printer"""
    __repr__ = pp.pretty_repr


_reentrant = {'fail_next': False}


@pp.register_pretty(Reentrant)
def _printer_reentrant(value, ctx):
    if _reentrant['fail_next']:
        _reentrant['fail_next'] = False
        raise KeyError('injected, once')
    return pp.pretty_call_alt(ctx, 'Reentrant', args=(value.uid,))


def commented_dict_value_check():
    """a dict value carrying a comment is rendered twice (for the comment-above layout): a printer failing in EITHER rendering must be
    reported by a warning naming it, the failure contained, the text that of the fault-free print with at most that value as its repr"""
    bad = []
    for spec in ((1, []), (2, [(1, [])]), (1, [(2, []), (3, [])]), (5, [(1, [])])):
        def make():
            rearm_by_name()
            root, nodes = build_tree(spec, set())
            return {'k': pp.comment(root, 'note'), 'z': 1}, nodes
        v, nodes = make()
        _state['counter'], _state['plan'], _state['log'] = 0, {}, []
        with warnings.catch_warnings():
            warnings.simplefilter('ignore')
            want = pp.pformat(v, width=200)
        log = list(_state['log'])
        for (k, cid) in log:
            v, nodes = make()
            _state['counter'], _state['plan'], _state['log'] = 0, {k: ('raises', 0)}, []
            with warnings.catch_warnings(record=True) as w:
                warnings.simplefilter('always')
                try:
                    got = pp.pformat(v, width=200)
                except Exception as e:
                    got = 'EXC:' + type(e).__name__
            _state['plan'] = {}
            named = []
            for x in w:
                m = re.search(r'printer_C(\d+), raised an exception', str(x.message))
                if m:
                    named.append(int(m.group(1)))
            if got.startswith('EXC:'):
                bad.append({'kind': 'failure-not-contained', 'why': 'pformat raised %s' % got, 'tree': spec, 'plan': [(k, 'raises')], 'under': 'commented dict value'})
            elif named != [cid]:
                bad.append({'kind': 'failure-not-contained', 'why': 'invocation %d (printer_C%d) fails under a commented dict value: warnings name %s, expected exactly [%d]' % (k, cid, named, cid),
                            'tree': spec, 'plan': [(k, 'raises')], 'under': 'commented dict value'})
            if len(bad) >= 3:
                return bad
    return bad


class UserId(int):
    """a user subclass of a scalar with a printer of its own"""


class Tag(str):
    pass


class Multi:
    """an object whose repr spans several lines (the fallback must show it verbatim, wherever the value sits)"""
    def __init__(self, n):
        self.n = n

    def __repr__(self):
        return 'Multi(\n  n=%d,\n)' % self.n


_scalar_plan = {'mode': None}


def _scalar_printer(tag):
    def printer(value, ctx):
        m = _scalar_plan['mode']
        if m is None:
            return '%s<%s>' % (tag, value.n if isinstance(value, Multi) else str.__str__(value) if isinstance(value, str) else int(value))
        if m == 'repr':
            return repr(value)
        raise m('injected')
    printer.__name__ = printer.__qualname__ = 'printer_' + tag
    return printer


pp.register_pretty(UserId)(_scalar_printer('UserId'))
pp.register_pretty(Tag)(_scalar_printer('Tag'))
pp.register_pretty(Multi)(_scalar_printer('Multi'))


def scalar_and_multiline_fault_check():
    """failing printers of user subclasses of scalars (int, str) and of a value whose repr has several lines, at the top, inside
    containers and at an indentation > 0: pformat returns, the text equals the one where the printer *returns* repr(value), exactly
    one warning names the printer, a later call is fault-free"""
    bad = []
    leaves = [('UserId', lambda: UserId(7)), ('Tag', lambda: Tag('t')), ('Multi', lambda: Multi(3))]
    shapes = [lambda x: x, lambda x: [x, 1], lambda x: {'k': x}, lambda x: [0, [1, {'key': [x, 'word ' * 3]}]], lambda x: (x,)]
    for name, mk in leaves:
        for si, shape in enumerate(shapes):
            for width in (200, 12):
                for exc in (KeyError, TypeError, ValueError):
                    v = shape(mk())
                    _scalar_plan['mode'] = 'repr'
                    with warnings.catch_warnings():
                        warnings.simplefilter('ignore')
                        want = pp.pformat(v, width=width)
                    _scalar_plan['mode'] = exc
                    with warnings.catch_warnings(record=True) as w:
                        warnings.simplefilter('always')
                        try:
                            got = pp.pformat(v, width=width)
                        except Exception as e:
                            got = 'EXC:' + type(e).__name__
                    _scalar_plan['mode'] = None
                    named = [str(x.message) for x in w if 'raised an exception' in str(x.message)]
                    try:
                        later = pp.pformat(v, width=width)
                    except Exception as e:
                        later = 'EXC:' + type(e).__name__
                    why = None
                    if got.startswith('EXC:'):
                        why = 'pformat raised %s' % got[4:]
                    elif got != want:
                        why = 'text %r differs from the text with repr(value) in place of the value %r' % (got[:200], want[:200])
                    elif len(named) != 1 or ('printer_' + name) not in named[0]:
                        why = 'warnings %r, expected exactly one naming printer_%s' % ([m[:80] for m in named], name)
                    elif later.startswith('EXC:') or ('%s<' % name) not in later:
                        why = 'a later fault-free call gives %r' % later[:200]
                    if why:
                        bad.append({'kind': 'failure-not-contained', 'why': why, 'value': '%s in shape %d' % (name, si), 'width': width, 'exception': exc.__name__})
                        break
                else:
                    continue
                break
            if len(bad) >= 3:
                return bad
    return bad


def reentrant_repr_check():
    """a printer fails once on a value whose __repr__ is pretty_repr: the fallback repr prints the value through the (now healthy)
    printer, so the text is the fault-free text, with one warning naming the printer; later calls are unaffected"""
    bad = []
    for shape in ('top', 'list', 'dict', 'twice'):
        r1, r2 = Reentrant(9, [], 1), Reentrant(9, [], 2)
        v = {'top': r1, 'list': [r1, 0], 'dict': {'k': [r1]}, 'twice': [r1, r2, r1]}[shape]
        with warnings.catch_warnings(record=True) as w0:
            warnings.simplefilter('always')
            want = pp.pformat(v, width=200)
        _reentrant['fail_next'] = True
        with warnings.catch_warnings(record=True) as w:
            warnings.simplefilter('always')
            try:
                got = pp.pformat(v, width=200)
            except Exception as e:
                got = 'EXC:' + type(e).__name__
        _reentrant['fail_next'] = False
        named = [str(x.message).split('raised an exception')[0] for x in w if 'raised an exception' in str(x.message)]
        try:
            later = pp.pformat(v, width=200)
        except Exception as e:
            later = 'EXC:' + type(e).__name__
        if got != want or later != want or w0:
            bad.append({'kind': 'failure-not-contained', 'why': 'printer of a value whose __repr__ is pretty_repr fails once: text %r, expected the fault-free text %r (later call: %r)' % (got, want, later),
                        'shape': shape})
        elif len(named) != 1 or '_printer_reentrant' not in named[0]:
            bad.append({'kind': 'failure-not-contained', 'why': 'warnings name %r, expected exactly one naming _printer_reentrant' % named, 'shape': shape})
    return bad


def _catch_all(value, ctx):
    # a predicate printer accepting every instrumented object, registered after all others: it must never be the one that prints
    # (class printers and earlier predicates win), in particular not as the fallback for a failing printer
    return 'CATCHALL(%d)' % value.uid


pp.register_pretty(predicate=lambda v: isinstance(v, Obj))(_catch_all)


def build_tree(spec, wrap_trailing, uid=None):
    """spec = (cls, [kids]); returns (object, list of nodes in pre-order)"""
    nodes = []

    def go(s):
        me = CLASSES[s[0]](s[0], [], len(nodes))
        nodes.append((me, s))
        kids = []
        for k in s[1]:
            o = go(k)
            if len(nodes) - 1 in wrap_trailing or o.uid in wrap_trailing:
                o2 = pp.trailing_comment(o, 'tc')
            else:
                o2 = o
            kids.append(o2)
        me.kids = kids
        return me
    root = go(spec)
    return root, nodes


def tree_sx(s):
    return '(n %d%s)' % (s[0], ''.join(' ' + tree_sx(k) for k in s[1]))


def odoc_of_ast(node, nodes):
    if isinstance(node, ast.Call) and isinstance(node.func, ast.Name):
        if node.func.id == 'REPR':
            uid = node.args[0].value
            return '(repr %s)' % tree_sx(nodes[uid][1])
        if node.func.id.startswith('C'):
            return '(c %s%s)' % (node.func.id[1:], ''.join(' ' + odoc_of_ast(a, nodes) for a in node.args))
    return '(unparsed)'


def all_trees(n, classes=(1, 2)):
    """all trees with n nodes over the given classes (1: no trailing_comment parameter, 2: with one, 3: registered by predicate)"""
    if n == 1:
        return [(c, []) for c in classes]
    out = []
    from docs import _compositions
    for comp in _compositions(n - 1):
        for kids in itertools.product(*[all_trees(c, classes) for c in comp]):
            for c in classes:
                out.append((c, list(kids)))
    return out


def size(s):
    return 1 + sum(size(k) for k in s[1])


def fail_chunk(cases):
    drv = _driver()
    mism, fails = [], []
    n = nt = 0
    for (spec, plan, wrap) in cases:
        rearm_by_name()
        root, nodes = build_tree(spec, wrap)
        _state['counter'] = 0
        _state['plan'] = dict(plan)
        with warnings.catch_warnings(record=True) as w:
            warnings.simplefilter('always')
            try:
                text = pp.pformat(root, width=200)
                exc = None
                exc_msg = ''
            except Exception as e:
                text, exc = None, type(e).__name__
                exc_msg = _safe_str(e)
        all_messages = exc_msg + ' '.join(str(x.message) for x in w)
        warned = []
        for x in w:
            m = re.search(r'printer_C(\d+), raised an exception', str(x.message))
            if m:
                warned.append(int(m.group(1)))
        n += 1
        if plan:
            nt += 1
        # later call unaffected
        _state['plan'] = {}
        _state['counter'] = 0
        with warnings.catch_warnings(record=True) as w2:
            warnings.simplefilter('always')
            clean_root, _ = build_tree(spec, wrap)
            try:
                later = pp.pformat(clean_root, width=200)
            except Exception as e:
                later = 'EXC:' + type(e).__name__ + ': ' + _safe_str(e)[:100]
        if exc is not None:
            impl = '(escapes (warn%s))' % ''.join(' %d' % c for c in warned) if exc == 'ValueError' else '(raises %s)' % exc
        else:
            try:
                tree = ast.parse(text.replace('\n', ' '), mode='eval').body
                impl = '(ok %s (warn%s))' % (odoc_of_ast(tree, nodes), ''.join(' %d' % c for c in warned))
            except SyntaxError:
                impl = '(unparsable %s)' % text[:100].replace(' ', '_')
        req = '(fail (plan %s) %s)' % (' '.join('(%d raises %d)' % (k, f[1]) if f[0] == 'raises' else '(%d bad)' % k for k, f in sorted(plan.items())), tree_sx(spec))
        g = drv.ask(req)
        if g != impl:
            mism.append({'tree': spec, 'plan': sorted(plan.items()), 'trailing_wrapped': sorted(wrap), 'impl': impl[:500], 'model': g[:500], 'text': (text or '')[:300]})
        # the property on the implementation
        bad = None
        faults = sorted(plan.items())
        if len(faults) == 1 and faults[0][1][0] == 'raises' and faults[0][0] < size(spec):
            k = faults[0][0]
            if exc is not None:
                bad = 'pformat raised %s' % exc
            else:
                # fault-free text with the k-th value replaced by its repr
                want = expected_text(spec, k)
                if text.replace('\n', ' ').replace(' ', '') != want.replace(' ', ''):
                    bad = 'output is not the fault-free output with value %d replaced by its repr: %s vs %s' % (k, text, want)
                elif warned != [nodes_cls(spec, k)]:
                    bad = 'warnings name printers %s, expected exactly [%d]' % (warned, nodes_cls(spec, k))
                if not bad:
                    # the SAME objects, changed between two calls (their repr now differs), with the same fault: the fallback shows the value as it
                    # is at the time of this call - nothing about the earlier failure is remembered
                    for o, _s in nodes:
                        o.uid += 1000
                    _state['counter'] = 0
                    _state['plan'] = dict(plan)
                    with warnings.catch_warnings():
                        warnings.simplefilter('ignore')
                        try:
                            text2 = pp.pformat(root, width=200)
                        except Exception as e:
                            text2 = 'EXC:' + type(e).__name__
                    _state['plan'] = {}
                    want2 = re.sub(r'REPR\((\d+)\)', lambda m: 'REPR(%d)' % (int(m.group(1)) + 1000), want)
                    if text2.replace('\n', ' ').replace(' ', '') != want2.replace(' ', ''):
                        bad = 'the same objects, changed and printed again with the same fault: %s, expected %s' % (text2[:200], want2[:200])
                    for o, _s in nodes:
                        o.uid -= 1000
        if len(faults) == 1 and faults[0][1][0] == 'bad' and faults[0][0] < size(spec) and not bad:
            # "a printer returning neither str nor Doc is reported with ValueError": the naming ValueError either escapes (top level) or
            # shows up in the warning of the enclosing printer that it made fail
            if 'must return an instance of str or Doc' not in all_messages:
                bad = 'a bad return value of value %d is not reported with the ValueError about the return type (raised: %s; messages: %s)' % (
                    faults[0][0], exc, all_messages[:200])
        if not bad and w2 and any('raised an exception' in str(x.message) for x in w2):
            bad = 'a later fault-free call warns'
        if not bad and later.replace('\n', ' ').replace(' ', '') != expected_text(spec, None).replace(' ', ''):
            bad = 'a later fault-free call differs: %s' % later
        if bad and len(fails) < 3:
            fails.append({'kind': 'failure-not-contained', 'why': bad, 'tree': spec, 'plan': faults, 'trailing_wrapped': sorted(wrap)})
    return n, nt, mism, fails


def expected_text(spec, k):
    counter = [0]

    def go(s):
        me = counter[0]
        counter[0] += 1
        if me == k:
            # skip the subtree's numbering: the faulty printer never prints its children
            return 'REPR(%d)' % me, True
        parts = []
        for kid in s[1]:
            parts.append(go_kid(kid))
        return 'C%d(%s)' % (s[0], ', '.join(parts)), False

    uid = [0]

    def render(s, kk):
        # uid numbering is pre-order over ALL nodes (independent of faults)
        my = uid[0]
        uid[0] += 1
        if kk == 0:
            skip(s)
            return 'REPR(%d)' % my
        kk -= 1
        parts = []
        for kid in s[1]:
            sz = size(kid)
            if 0 <= kk < sz:
                parts.append(render(kid, kk))
            else:
                parts.append(render(kid, -1))
            kk -= sz
        return 'C%d(%s)' % (s[0], ', '.join(parts))

    def skip(s):
        for kid in s[1]:
            uid[0] += 1
            skip(kid)
    return render(spec, -1 if k is None else k)


def nodes_cls(spec, k):
    flat = []

    def go(s):
        flat.append(s[0])
        for kid in s[1]:
            go(kid)
    go(spec)
    return flat[k]


def failures_section(tier, seed):
    rng = random.Random(seed * 53 + 14)
    cases = []
    maxn = 4 if tier == 'quick' else 5
    trees = []
    for n in range(1, maxn + 1):
        trees.extend(all_trees(n, (1, 2, 3, 5) if n <= 3 else (1, 2)))
    for t in trees:
        sz = size(t)
        cases.append((t, {}, set()))
        for k in range(sz):
            for e in (range(len(EXC)) if tier == 'thorough' else [0, 1, EXC.index(RecursionError), EXC.index(CollectedErrors), EXC.index(BadStr), rng.randrange(2, len(EXC))]):
                cases.append((t, {k: ('raises', e)}, set()))
                if k > 0:
                    cases.append((t, {k: ('raises', e)}, {k}))          # the faulty value under a trailing comment
            cases.append((t, {k: ('bad',)}, set()))
            if k > 0:
                cases.append((t, {k: ('bad',)}, {k}))               # ... also under a trailing comment (printers with and without the parameter)
    # pairs of faults, sampled
    for _ in range(300 if tier == 'quick' else 3000):
        t = rng.choice(trees)
        sz = size(t)
        ks = rng.sample(range(sz), min(2, sz))
        cases.append((t, {k: rng.choice([('raises', rng.randrange(len(EXC))), ('bad',)]) for k in ks}, set(rng.sample(range(sz), rng.choice([0, 1])))))
    chunks = [cases[i:i + 100] for i in range(0, len(cases), 100)]
    tot = nt = 0
    mism, fails = [], []
    with mp.Pool(min(NCPU, max(1, len(chunks)))) as pool:
        for a, b, mm, ff in pool.imap_unordered(fail_chunk, chunks):
            tot += a
            nt += b
            mism.extend(mm)
            fails.extend(ff)
    fails.extend(reentrant_repr_check())
    fails.extend(commented_dict_value_check())
    fails.extend(scalar_and_multiline_fault_check())
    stats = {'evaluations': tot, 'distinct_nontrivial': nt, 'trees': len(trees), 'mismatches': len(mism), 'exhaustive': True,
             'reentrant_repr_checked': True,
             'samples': [{'tree': cases[7][0], 'fault': sorted(cases[7][1].items())}],
             'rule': 'every tree of <= %d instrumented objects (printers with / without a trailing_comment parameter, registered by class, by predicate and by name - the by-name entry pending again before every case) x every invocation index x exception classes '
                     '(incl. TypeError) x {plain, the faulty value under trailing_comment} + a bad return value at every index + sampled fault pairs; observed: which values fell back to repr, '
                     'which printers the warnings name, ValueError escaping; each followed by a fault-free call; plus a printer failing once on values whose __repr__ is pretty_repr (the fallback re-enters the printer); non-trivial = cases with a fault' % maxn}
    return stats, mism, fails
