"""Known / fixed findings: replay functions on the real code, and the matcher that decides whether a failing
input found by a check belongs to a *listed* known finding (everything else is reported as a VIOLATION)."""
import json
import sys
import warnings

from common import REPO  # noqa: F401


def _P():
    import prettyprinter  # noqa: F401
    return sys.modules['prettyprinter.prettyprinter']


def _render(doc, width=79, frac=0.9, smart=True):
    from prettyprinter.layout import layout_smart, layout_fast
    from prettyprinter.render import default_render_to_str
    return default_render_to_str((layout_smart if smart else layout_fast)(doc, width=width, ribbon_frac=frac))


# ---- replays: return True when the defect manifests on the current tree -------------------

def r_K1():
    from prettyprinter.doc import group, concat, LINE, HARDLINE
    a = _render(group(concat(['a', LINE, 'b', HARDLINE, 'c'])), 20) == 'a b\nc'
    b = _render(group(concat(['a', HARDLINE, 'bbbbbbbbbb', LINE, 'c'])), 5, 1.0) == 'a\nbbbbbbbbbb c'
    return a or b


def r_K4():
    import prettyprinter as pp
    with warnings.catch_warnings():
        warnings.simplefilter('ignore')
        return pp.pformat(pp.trailing_comment([], 'x')) == '[]' or '#' not in pp.pformat([pp.trailing_comment(1, 'x')])


def r_K3():
    import sec_cost
    import prettyprinter as pp
    f = sec_cost.FAMILIES['commented_dict_values']
    a, _ = sec_cost.count_steps(f(6))
    b, _ = sec_cost.count_steps(f(12), budget=3_000_000)
    return b > 20 * a


def r_K6():
    import datetime
    import pytz
    import prettyprinter as pp
    tz = pytz.timezone('Europe/Helsinki').localize(datetime.datetime(2020, 6, 1, 12)).tzinfo
    out = pp.pformat(tz)
    return 'DstTzInfo(' in out and 'In timezone' in out


def r_K2():
    import prettyprinter as pp
    return pp.pformat([None, True], depth=1) == '[None, True]'


def r_K5():
    import prettyprinter as pp
    return pp.pformat({'k': 1}, depth=1) == "{'k': int(...)}"


def r_F1():
    from prettyprinter.doc import group, concat, nest, always_break
    try:
        nest(2, 'a'); group('a'); always_break('a')
        return _render(group(concat(['a']))) != 'a'
    except AssertionError:
        return True


def r_F2():
    from prettyprinter.doc import fill, always_break, concat, LINE
    return _render(fill([always_break(concat(['b', LINE, 'c'])), LINE, 'd'])) == 'b c d'


def r_F3():
    import prettyprinter as pp
    return eval(pp.pformat([''], width=1)) != [''] or eval(pp.pformat([b''], width=1)) != [b'']


def r_F4():
    import prettyprinter as pp
    try:
        with warnings.catch_warnings(record=True) as w:
            warnings.simplefilter('always')
            out = pp.pformat([pp.comment(1, 'a\n\nb')])
        return bool(w) or eval(out) != [1]
    except IndexError:
        return True


def r_F5():
    import prettyprinter as pp
    return eval(pp.pformat((pp.comment(1, 'c'),))) != (1,)


class S6(str):
    pass


def r_F6():
    import prettyprinter as pp
    for w in range(6, 40):
        for v in ({'k': S6('a' * 12)}, [S6('a' * 12), 1], {'kkkkkk': S6('a b')}):
            if 'S6(' not in pp.pformat(v, width=w):
                return True
    return False


class R17(str):
    def __repr__(self):
        return 'custom'


def r_F17():
    import prettyprinter as pp
    return "R17('abc')" not in pp.pformat(R17('abc'))


def r_F18():
    import dataclasses
    import prettyprinter as pp
    pp.install_extras(['dataclasses'], warn_on_error=False)

    @dataclasses.dataclass
    class D18:
        ctx: int
        fn: int = 0
    with warnings.catch_warnings(record=True) as w:
        warnings.simplefilter('always')
        pp.pformat(D18(1, 2))
    return any('raised an exception' in str(x.message) for x in w)


def r_F19():
    import time
    import prettyprinter as pp

    class Unparsable:
        pass
    good = time.struct_time((2020, 1, 2, 3, 4, 5, 3, 2, -1))
    with warnings.catch_warnings():
        warnings.simplefilter('ignore')
        before = pp.pformat(good)
        pp.pformat(time.struct_time((Unparsable(), 1, 2, 3, 4, 5, 3, 2, -1)))
        after = pp.pformat(good)
        # the other direction: the unparsable one printed first in a state where nothing is remembered must equal its later print
    return before != after


def r_K7():
    import prettyprinter as pp

    class D7(dict):
        pass
    return '{' in pp.pformat(pp.trailing_comment(D7(), 'x')) and '{' not in pp.pformat(D7())


def r_F20():
    import prettyprinter as pp
    out = pp.pformat({pp.comment(2, 'c'): 'a', 1: 'b'}, sort_dict_keys=True)
    return out.index('1:') > out.index('2:')


def r_F21():
    import prettyprinter as pp

    class Pred21:
        pass

    def failing_pred21_printer(v, ctx):
        raise KeyError('boom')
    pp.register_pretty(predicate=lambda v: isinstance(v, Pred21))(failing_pred21_printer)
    with warnings.catch_warnings(record=True) as w:
        warnings.simplefilter('always')
        pp.pformat([Pred21()])
    heads = [str(x.message).split('raised an exception')[0] for x in w if 'raised an exception' in str(x.message)]
    return not heads or not all('failing_pred21_printer' in h for h in heads)


def r_F22():
    import prettyprinter as pp
    # ten fresh dicts: before the fix the place of a tuple key with a commented element depended on object identity, not on its value
    for _ in range(10):
        out = pp.pformat({(pp.comment(2, 'c'),): 'a', (1,): 'b', (pp.comment(0, 'z'), (pp.comment(5, 'y'),)): 'c'}, sort_dict_keys=True, width=200)
        if not (out.index("'c'") < out.index("'b'") < out.index("'a'")):
            return True
    return False


def r_F23():
    import prettyprinter as pp
    d = {1e16: float('-inf'), 'e': None, (1, 2): 3, None: 4, b'b': 5}
    outs, junk = set(), []
    for i in range(25):
        junk.append([object() for _ in range(i)])        # perturb the allocator between calls
        outs.add(pp.pformat(d, sort_dict_keys=True, width=200))
    return len(outs) > 1


def r_F24():
    import prettyprinter as pp
    pp.install_extras(['dataclasses'], warn_on_error=False)

    class Lazy:
        def __getattr__(self, name):
            child = Lazy()
            self.__dict__[name] = child
            return child

        def __repr__(self):
            return 'Lazy(%s)' % ', '.join(sorted(self.__dict__))
    v = Lazy()
    with warnings.catch_warnings():
        warnings.simplefilter('ignore')
        pp.pformat([v])
    return bool(v.__dict__)


def r_F7():
    import enum
    import prettyprinter as pp
    E = enum.IntEnum('E', 'A B')
    return '<' in pp.pformat(E.A)


def r_F8():
    import prettyprinter as pp
    with warnings.catch_warnings(record=True) as w:
        warnings.simplefilter('always')
        out = pp.pformat([1, 2, 3], max_seq_len=None)
    return bool(w) or out != '[1, 2, 3]'


def r_F9():
    import datetime
    import prettyprinter as pp
    with warnings.catch_warnings(record=True) as w:
        warnings.simplefilter('always')
        out = pp.pformat(datetime.timezone(datetime.timedelta(hours=2)))
    return bool(w) or eval(out) != datetime.timezone(datetime.timedelta(hours=2))


def _bad_cls():
    import prettyprinter as pp

    class Bad:
        pass

    @pp.register_pretty(Bad)
    def pb(v, ctx):
        raise KeyError('boom')
    return Bad


def r_F10():
    import prettyprinter as pp

    class BadRet:
        pass

    @pp.register_pretty(BadRet)
    def pb(v, ctx):
        return 42          # neither str nor Doc: ValueError inside the parent's printer
    b = BadRet()
    with warnings.catch_warnings():
        warnings.simplefilter('ignore')
        out = pp.pformat([[b], b])
        Bad = _bad_cls()
        c = Bad()
        out2 = pp.pformat([[pp.trailing_comment(c, 'x')], c])
    return 'Recursion' in out or 'Recursion' in out2


def r_F11():
    import prettyprinter as pp
    Bad = _bad_cls()
    with warnings.catch_warnings():
        warnings.simplefilter('ignore')
        out = pp.pformat([1, pp.trailing_comment(Bad(), 'tc'), 2])
    return not (out.lstrip().startswith('[') and '1' in out and '2' in out and 'Bad object' in out and out.count('[') == 1)


def r_F12():
    import prettyprinter as pp
    P = _P()
    A = type('A_f12', (), {})
    A.__module__ = 'verif_f12'
    B = type('B_f12', (A,), {})
    B.__module__ = 'verif_f12'
    snap = dict(P.pretty_dispatch.registry), dict(P._DEFERRED_DISPATCH_BY_NAME)
    try:
        pp.register_pretty(A)(lambda v, ctx: 'direct')
        pp.register_pretty('verif_f12.A_f12')(lambda v, ctx: 'byname')
        first = pp.pformat(A())
        pp.pformat(B())
        second = pp.pformat(A())
        return not (first == 'byname' and second == 'byname')
    finally:
        P._DEFERRED_DISPATCH_BY_NAME.clear()
        P._DEFERRED_DISPATCH_BY_NAME.update(snap[1])
        for k in list(P.pretty_dispatch.registry):
            if k not in snap[0]:
                P.pretty_dispatch.registry.__class__  # mappingproxy: cannot delete; left registered for a throw-away class
        P.pretty_dispatch._clear_cache()


def r_F13():
    from prettyprinter.color import styleattrs_to_colorful
    try:
        styleattrs_to_colorful({'color': None, 'bgcolor': 'ff0000', 'bold': False, 'italic': False, 'underline': True})
        return False
    except Exception:
        return True


def r_F14():
    import io
    from prettyprinter.color import colored_render_to_stream, default_style
    from prettyprinter.sdoctypes import SAnnotationPush, SAnnotationPop
    from prettyprinter.syntax import Token
    import colorful
    colorful.use_true_colors()
    s = io.StringIO()
    other = object()
    colored_render_to_stream(s, ['x', SAnnotationPush(Token.NUMBER_INT), 'a', SAnnotationPush(other), 'b',
                                 SAnnotationPop(other), 'c', SAnnotationPop(Token.NUMBER_INT)], default_style)
    out = s.getvalue()
    # after the inner (non-token) annotation ends nothing must be written between 'b' and 'c'
    return not out.split('b', 1)[1].startswith('c')


def r_F15():
    import prettyprinter as pp
    try:
        return pp.PrettyPrinter(width=20).pformat([1, 2]) != pp.pformat([1, 2], width=20)
    except TypeError:
        return True


def r_F16():
    """deterministic replay of the race: thread 1 is suspended right after it has looked the deferred entry up."""
    try:
        import sec_threads
    except Exception:
        return None
    return sec_threads.race_replay()


REPLAYS = {k[2:]: v for k, v in list(globals().items()) if k.startswith('r_')}


def replay(fid):
    fn = REPLAYS.get(fid)
    if fn is None:
        return None
    return fn()


# ---- matching a failing input found by a check against the *listed* known findings ----------

def _has_group_hardline(d, in_group=False):
    k = d[0]
    if k == 'hl':
        return in_group
    if k in ('cat', 'fill'):
        return any(_has_group_hardline(x, in_group) for x in d[1])
    if k in ('nest', 'hang', 'ann'):
        return _has_group_hardline(d[2], in_group)
    if k == 'group':
        return _has_group_hardline(d[1], True)
    if k in ('ab', 'align'):
        return _has_group_hardline(d[1], in_group)
    if k == 'choice':
        return _has_group_hardline(d[1], in_group) or _has_group_hardline(d[2], in_group)
    return False


def match_known(prop, failing, known):
    """id of the known finding that explains `failing`, or None."""
    ids = [k['id'] for k in known.get('known', []) if prop in k['property']]
    kind = failing.get('kind') if isinstance(failing, dict) else None
    if 'K1' in ids and kind in ('engine-strict', 'engine-flat-overflow') and 'doc' in failing:
        if _has_group_hardline(tuple_of(failing['doc'])):
            return 'K1'
    if 'K4' in ids and kind == 'trailing-comment-not-rendered':
        return 'K4'
    if 'K2' in ids and kind == 'depth-leaf-printed-in-full':
        return 'K2'
    if 'K5' in ids and kind == 'depth-str-key-printed-in-full':
        return 'K5'
    if 'K7' in ids and kind == 'syntax-tree-differs-from-uncommented' and failing.get('empty_dict_subclass_with_trailing_comment'):
        return 'K7'
    if 'K6' in ids and kind == 'pytz-dst-variant-not-reconstructible':
        return 'K6'
    if 'K3' in ids and kind == 'cost-family' and failing.get('family') == 'commented_dict_values':
        return 'K3'
    return None


def tuple_of(x):
    """JSON round trip turns tuples into lists; normalise"""
    if isinstance(x, (list, tuple)):
        return tuple(tuple_of(y) if isinstance(y, (list, tuple)) and y and isinstance(y[0], str) else
                     ([tuple_of(z) for z in y] if isinstance(y, (list, tuple)) else y) for y in x)
    return x


def replay_file(prop, path):
    """re-run one replay file: prints the payload and re-evaluates the property's oracle where one is recorded"""
    payload = json.load(open(path))
    print(json.dumps(payload, indent=1)[:4000])
    import registry
    fn = registry.REGISTRY.get(prop, {}).get('replay')
    if fn is None:
        return 0
    bad = fn(payload)
    if bad:
        print('VIOLATION property=%s replay=%s' % (prop, path))
        return 1
    return 0
