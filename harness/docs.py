"""Document terms: a neutral tuple representation, conversion to /repo's Doc objects and to the Lean protocol,
bounded-exhaustive enumeration and random generation."""
import itertools
import random

from common import REPO  # noqa: F401  (puts /repo on sys.path)

import prettyprinter.doc as D
from prettyprinter.doctypes import (AlwaysBreak, Annotated, Concat, Contextual, Fill, FlatChoice, Group, HardLine,
                                    Nest, Nil, NIL, HARDLINE, LINE, SOFTLINE)
from prettyprinter.sdoctypes import SLine, SAnnotationPush, SAnnotationPop
from prettyprinter.syntax import Token

# fixed numbering by *name* (the model's Pr.t* constants); independent of the enum's definition order
TOKEN_NAMES = ['KEYWORD_CONSTANT', 'NAME_BUILTIN', 'NAME_ENTITY', 'NAME_FUNCTION', 'NAME_VARIABLE', 'LITERAL_STRING',
               'STRING_AFFIX', 'STRING_ESCAPE', 'NUMBER_BINARY', 'NUMBER_FLOAT', 'NUMBER_INT', 'OPERATOR', 'PUNCTUATION',
               'COMMENT_SINGLE']
TOKENS = [getattr(Token, n, None) for n in TOKEN_NAMES]


class Oth:
    """a non-token annotation value"""
    __slots__ = ('n',)

    def __init__(self, n):
        self.n = n

    def __repr__(self):
        return 'Oth(%d)' % self.n

    def __bool__(self):
        # an annotation is any object: Oth(0) is a falsy one (as 0, '', None or an empty tuple would be) and must be kept all the same
        return self.n != 0


def cps(s):
    return ' '.join(str(ord(c)) for c in s)


def sx_str(tag, s):
    return '(%s %s)' % (tag, cps(s)) if s else '(%s)' % tag


# ---- annotations -------------------------------------------------------------------------

# annotation values that are not syntax tokens but are easily mistaken for one: Token is an IntEnum, so 3, 6, True and 2.0 compare (and
# hash) equal to members; a list and a dict are not even hashable; a str that spells a member's name
RAW_ANNS = [3, 6, True, 2.0, [5], {'k': 12}, 'NUMBER_INT', None, 0]


def ann_to_py(a):
    if a[0] == 'tok':
        return TOKENS[a[1]]
    if a[0] == 'oth':
        return Oth(a[1])
    if a[0] == 'raw':
        return RAW_ANNS[a[1]]
    if a[0] == 'cmt':
        import sys
        P = sys.modules['prettyprinter.prettyprinter']
        return P.CommentAnnotation(a[1])
    raise ValueError(a)


def ann_val_to_sx(v):
    if isinstance(v, Token):
        return '(tok %d)' % (TOKEN_NAMES.index(v.name) if v.name in TOKEN_NAMES else 900)
    if isinstance(v, Oth):
        return '(oth %d)' % v.n
    if type(v).__name__ == 'CommentAnnotation':
        import sec_strings
        return '(cmt %s)' % sec_strings.pchars(v.value) if v.value else '(cmt)'
    return '(oth 999)'


def ann_to_sx(a):
    if a[0] == 'tok':
        return '(tok %d)' % a[1]
    if a[0] == 'oth':
        return '(oth %d)' % a[1]
    if a[0] == 'raw':
        return '(oth 999)'
    import sec_strings
    return '(cmt %s)' % sec_strings.pchars(a[1]) if a[1] else '(cmt)'


# ---- terms -------------------------------------------------------------------------------

def to_py(d):
    k = d[0]
    if k == 'nil':
        return NIL
    if k == 'hl':
        return HARDLINE
    if k == 'line':
        return LINE
    if k == 'softline':
        return SOFTLINE
    if k == 't':
        return d[1]
    if k == 'cat':
        return D.concat([to_py(x) for x in d[1]])
    if k == 'fill':
        return D.fill([to_py(x) for x in d[1]])
    if k == 'nest':
        return D.nest(d[1], to_py(d[2]))
    if k == 'group':
        return D.group(to_py(d[1]))
    if k == 'ab':
        return D.always_break(to_py(d[1]))
    if k == 'align':
        return D.align(to_py(d[1]))
    if k == 'hang':
        return D.hang(d[1], to_py(d[2]))
    if k == 'choice':
        return D.flat_choice(when_broken=to_py(d[1]), when_flat=to_py(d[2]))
    if k == 'ann':
        return D.annotate(ann_to_py(d[1]), to_py(d[2]))
    raise ValueError(d)


def to_sx(d):
    k = d[0]
    if k == 'nil':
        return 'nil'
    if k == 'hl':
        return 'hl'
    if k == 'line':
        return '(choice 0 hl (t 32))'
    if k == 'softline':
        return '(choice 0 hl nil)'
    if k == 't':
        return sx_str('t', d[1])
    if k in ('cat', 'fill'):
        return '(%s%s)' % (k, ''.join(' ' + to_sx(x) for x in d[1]))
    if k == 'nest':
        return '(nest %d %s)' % (d[1], to_sx(d[2]))
    if k in ('group', 'ab', 'align'):
        return '(%s %s)' % (k, to_sx(d[1]))
    if k == 'hang':
        return '(align (nest %d %s))' % (d[1], to_sx(d[2]))
    if k == 'choice':
        return '(choice 0 %s %s)' % (to_sx(d[1]), to_sx(d[2]))
    if k == 'ann':
        return '(ann %s %s)' % (ann_to_sx(d[1]), to_sx(d[2]))
    raise ValueError(d)


def sdocs_to_sx(sdocs):
    parts = ['sdocs']
    for s in sdocs:
        if isinstance(s, str):
            parts.append(sx_str('t', s))
        elif isinstance(s, SLine):
            parts.append('(l %d)' % s.indent)
        elif isinstance(s, SAnnotationPush):
            parts.append('(push %s)' % ann_val_to_sx(s.value))
        elif isinstance(s, SAnnotationPop):
            parts.append('(pop %s)' % ann_val_to_sx(s.value))
        else:
            parts.append('(unknown)')
    return '(' + ' '.join(parts) + ')'


def size(d):
    k = d[0]
    if k in ('nil', 'hl', 'line', 'softline', 't'):
        return 1
    if k in ('cat', 'fill'):
        return 1 + sum(size(x) for x in d[1])
    if k in ('nest', 'hang', 'ann'):
        return 1 + size(d[2])
    if k in ('group', 'ab', 'align'):
        return 1 + size(d[1])
    if k == 'choice':
        return 1 + size(d[1]) + size(d[2])
    raise ValueError(d)


# ---- enumeration -------------------------------------------------------------------------

LEAVES = [('t', 'a'), ('t', 'bb'), ('t', ''), ('t', ' '), ('line',), ('softline',), ('hl',), ('nil',)]
CLASSIC_LEAVES = [('t', 'a'), ('t', 'bb'), ('t', ''), ('line',), ('softline',), ('hl',), ('nil',)]


def _unaries(full):
    u = [lambda x: ('nest', -1, x), lambda x: ('nest', 0, x), lambda x: ('nest', 2, x),
         lambda x: ('group', x), lambda x: ('ab', x), lambda x: ('align', x),
         lambda x: ('ann', ('tok', 3), x)]
    if full:
        u.append(lambda x: ('hang', 2, x))
    return u


def _compositions(n):
    """ordered tuples of positive integers summing to n"""
    if n == 0:
        yield ()
        return
    for first in range(1, n + 1):
        for rest in _compositions(n - first):
            yield (first,) + rest


def enum_docs(max_size, classic=False):
    """All documents with exactly `size` nodes, for size = 1..max_size, as a dict size -> list."""
    leaves = CLASSIC_LEAVES if classic else LEAVES
    by = {1: list(leaves)}
    for n in range(2, max_size + 1):
        out = []
        for u in _unaries(not classic):
            out.extend(u(x) for x in by[n - 1])
        # n-ary: cat / fill with children sizes composing n-1 (including the empty cat/fill at n == 1: skipped)
        for comp in _compositions(n - 1):
            for kids in itertools.product(*[by[c] for c in comp]):
                out.append(('cat', list(kids)))
                if not classic:
                    out.append(('fill', list(kids)))
        if not classic:
            for b in range(1, n - 1):
                f = n - 1 - b
                if f < 1:
                    continue
                for x in by[b]:
                    for y in by[f]:
                        out.append(('choice', x, y))
        by[n] = out
    return by


# ---- random generation -------------------------------------------------------------------

WORDS = ['a', 'bb', 'ccc', 'dddd', 'x' * 7, '', ' ', '  ', 'é', '[', ']', ',']


def rand_doc(rng, budget, classic=False, depth=0):
    if budget <= 1 or depth > 12 or rng.random() < 0.15:
        r = rng.random()
        if r < 0.5:
            return ('t', rng.choice(WORDS))
        if r < 0.7:
            return ('line',)
        if r < 0.8:
            return ('softline',)
        if r < 0.9:
            return ('hl',)
        return ('nil',)
    r = rng.random()
    if r < 0.35:
        k = rng.randint(0, min(6, budget - 1))
        kids = []
        rem = budget - 1
        for j in range(k):
            b = max(1, rem // (k - j)) if rng.random() < 0.5 else rng.randint(1, max(1, rem - (k - j - 1)))
            kids.append(rand_doc(rng, b, classic, depth + 1))
            rem = max(1, rem - size(kids[-1]))
        return ('cat', kids)
    if r < 0.50:
        return ('group', rand_doc(rng, budget - 1, classic, depth + 1))
    if r < 0.60:
        return ('nest', rng.choice([-2, -1, 0, 1, 2, 4, 4, 2, 1, 45, 90]), rand_doc(rng, budget - 1, classic, depth + 1))
    if r < 0.66:
        return ('ab', rand_doc(rng, budget - 1, classic, depth + 1))
    if r < 0.72:
        return ('align', rand_doc(rng, budget - 1, classic, depth + 1))
    if r < 0.80:
        a = rng.choice([('tok', rng.randint(0, 12)), ('oth', rng.randint(0, 3))])
        return ('ann', a, rand_doc(rng, budget - 1, classic, depth + 1))
    if classic:
        return ('group', rand_doc(rng, budget - 1, classic, depth + 1))
    if r < 0.86:
        return ('hang', rng.choice([0, 2, 4]), rand_doc(rng, budget - 1, classic, depth + 1))
    if r < 0.93:
        k = rng.randint(0, min(7, budget - 1))
        kids = []
        for j in range(k):
            if j % 2 == 1 and rng.random() < 0.8:
                kids.append(rng.choice([('line',), ('softline',), ('t', ' ')]))
            else:
                kids.append(rand_doc(rng, max(1, (budget - 1) // max(1, k)), classic, depth + 1))
        return ('fill', kids)
    b = rand_doc(rng, max(1, (budget - 1) // 2), classic, depth + 1)
    f = rand_doc(rng, max(1, (budget - 1) // 2), classic, depth + 1)
    return ('choice', b, f)
