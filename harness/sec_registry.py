"""Correspondence section: the printer registry (register_pretty / is_registered / dispatch) vs the Lean model M4.
Every history is run on fresh classes; the predicate list and the deferred table are restored afterwards."""
import itertools
import multiprocessing as mp
import random
import sys
import warnings

from common import Driver, NCPU

import prettyprinter as pp

P = sys.modules['prettyprinter.prettyprinter']

_counter = [0]


def make_lattice():
    """A <- B, A <- C, D(B, C) diamond, E unrelated, M(E, A) multiple inheritance.  Returns {id: class}."""
    _counter[0] += 1
    mod = 'verif_lat_%d_%d' % (id(_counter), _counter[0])

    def mk(name, bases):
        cls = type(name, bases, {})
        # the roots A and E live in another module than the classes derived from them (a library's base class, an application's subclasses):
        # a by-name registration for `lib.A` must reach D, whose own module and whose direct bases' module is the application's
        cls.__module__ = mod + '_lib' if name in ('A', 'E') else mod
        # B and M are nested classes (their qualified name has two parts, `Outer.B`): by-name registrations use the qualified name
        cls.__qualname__ = ('Outer.' + name) if name in ('B', 'M') else name
        return cls
    A = mk('A', (object,))
    B = mk('B', (A,))
    C = mk('C', (A,))
    D = mk('D', (B, C))
    E = mk('E', (object,))
    M = mk('M', (E, A))
    return {1: A, 2: B, 3: C, 4: D, 5: E, 6: M}


def mro_ids(lat, c):
    inv = {v: k for k, v in lat.items()}
    return [inv[x] for x in lat[c].__mro__ if x is not object]


def run_history(ops):
    """ops: list of tuples.  Returns (trace list of str, model request)."""
    lat = make_lattice()
    n_preds = len(P._PREDICATE_REGISTRY)
    deferred_snapshot = dict(P._DEFERRED_DISPATCH_BY_NAME)
    out = []
    req = []
    shared = {}      # one predicate *object* per q, registered again and again by 'rs' (a second registration must not replace the first)
    try:
        for i, op in enumerate(ops):
            k = op[0]
            if k == 'rs':
                pid = 100 + i
                q = op[1]
                if q not in shared:
                    shared[q] = lambda v, _q=q: _q in getattr(v, '_acc', ())
                pp.register_pretty(predicate=shared[q])(lambda v, ctx, _t='P%d' % pid: _t)
                req.append('(rp %d %d)' % (q, pid))
            elif k == 'rc':
                pid = 100 + i
                pp.register_pretty(lat[op[1]])(lambda v, ctx, _t='P%d' % pid: _t)
                req.append('(rc %d %d)' % (op[1], pid))
            elif k == 'rn':
                pid = 100 + i
                cls = lat[op[1]]
                pp.register_pretty(cls.__module__ + '.' + cls.__qualname__)(lambda v, ctx, _t='P%d' % pid: _t)
                req.append('(rn %d %d)' % (op[1], pid))
            elif k in ('rnS', 'rcS'):
                # one and the same function object registered again and again (a module set up twice, install_extras called again):
                # by name ('rnS') or directly ('rcS'); it prints a tag of its own, so "latest registration wins" stays observable
                pid = (900 if k == 'rnS' else 950) + op[1]
                if (k, op[1]) not in shared:
                    shared[(k, op[1])] = lambda v, ctx, _t='P%d' % pid: _t
                cls = lat[op[1]]
                if k == 'rnS':
                    pp.register_pretty(cls.__module__ + '.' + cls.__qualname__)(shared[(k, op[1])])
                    req.append('(rn %d %d)' % (op[1], pid))
                else:
                    pp.register_pretty(cls)(shared[(k, op[1])])
                    req.append('(rc %d %d)' % (op[1], pid))
            elif k == 'rnF':
                # a printer that is a callable OBJECT which is falsy (it has a length of 0), registered by name
                pid = 100 + i
                cls = lat[op[1]]
                pp.register_pretty(cls.__module__ + '.' + cls.__qualname__)(FalsyPrinter('P%d' % pid))
                req.append('(rn %d %d)' % (op[1], pid))
            elif k == 'rp':
                pid = 100 + i
                q = op[1]
                pp.register_pretty(predicate=lambda v, _q=q: _q in getattr(v, '_acc', ()))(lambda v, ctx, _t='P%d' % pid: _t)
                req.append('(rp %d %d)' % (q, pid))
            elif k == 'pr':
                inst = lat[op[1]]()
                inst._acc = tuple(op[2])
                with warnings.catch_warnings():
                    warnings.simplefilter('ignore')
                    try:
                        t = pp.pformat(inst)
                    except Exception as e:
                        t = 'EXC:' + type(e).__name__
                if t.startswith('P'):
                    out.append('(p %s)' % t[1:])
                elif t.startswith('<'):
                    out.append('repr')
                else:
                    out.append('(other %s)' % t[:20].replace(' ', '_'))
                req.append('(pr (%s) (%s))' % (' '.join(map(str, mro_ids(lat, op[1]))), ' '.join(map(str, op[2]))))
            elif k == 'q':
                cs, cd, rd = op[2]
                try:
                    r = pp.is_registered(lat[op[1]], check_superclasses=bool(cs), check_deferred=bool(cd), register_deferred=bool(rd))
                    out.append('yes' if r else 'no')
                except ValueError:
                    out.append('value-error')
                req.append('(q (%s) %d %d %d)' % (' '.join(map(str, mro_ids(lat, op[1]))), cs, cd, rd))
    finally:
        del P._PREDICATE_REGISTRY[n_preds:]
        P._DEFERRED_DISPATCH_BY_NAME.clear()
        P._DEFERRED_DISPATCH_BY_NAME.update(deferred_snapshot)
    return '(ok' + ''.join(' ' + o for o in out) + ')', '(reg ' + ' '.join(req) + ')'


# ---- the specification, evaluated independently in Python (oracle) ----------------------------

def spec_trace(ops):
    lat = make_lattice()
    latest = {}
    preds = []
    out = []
    for i, op in enumerate(ops):
        k = op[0]
        if k in ('rc', 'rn', 'rnF'):
            latest[op[1]] = 100 + i
        elif k in ('rnS', 'rcS'):
            latest[op[1]] = (900 if k == 'rnS' else 950) + op[1]
        elif k in ('rp', 'rs'):
            preds.append((op[1], 100 + i))
        elif k == 'pr':
            chosen = None
            for c in mro_ids(lat, op[1]):
                if c in latest:
                    chosen = latest[c]
                    break
            if chosen is None:
                for q, p in preds:
                    if q in op[2]:
                        chosen = p
                        break
            out.append('(p %d)' % chosen if chosen is not None else 'repr')
        elif k == 'q':
            # with check_deferred=True a by-name registration counts like a direct one: the answer is "some class the query may look at
            # (the class itself, or its whole MRO with check_superclasses) has a registration".  With check_deferred=False the answer
            # depends on which by-name entries have been promoted so far, which the property does not pin down: left to the correspondence.
            cs, cd, rd = op[2]
            if cd:
                look = mro_ids(lat, op[1]) if cs else [op[1]]
                out.append('yes' if any(c in latest for c in look) else 'no')
            else:
                out.append(None)
    return out


ALPHABET = ([('rc', c) for c in (1, 2, 3)] + [('rn', c) for c in (1, 2, 3)] + [('rp', 7), ('rs', 7)] +
            [('pr', c, acc) for c, acc in ((1, ()), (2, (7,)), (4, ()), (6, (7,)), (5, (7,)))] +
            [('q', c, fl) for c in (2, 4) for fl in ((1, 1, 1), (1, 1, 0), (0, 1, 0), (1, 0, 0), (0, 0, 0), (1, 0, 1))])

PRED_ALPHABET = [('rp', 7), ('rp', 8), ('rs', 7), ('pr', 5, (7,)), ('pr', 5, (8,)), ('pr', 5, (7, 8)), ('pr', 2, (8, 7))]

class FalsyPrinter:
    def __init__(self, tag):
        self.tag = tag

    def __call__(self, value, ctx):
        return self.tag

    def __len__(self):
        return 0


# the same printer function registered repeatedly, by name and directly, around prints that promote pending entries
SHARED_ALPHABET = [('rnS', 2), ('rcS', 2), ('rn', 2), ('rc', 2), ('rnS', 1), ('pr', 2, ()), ('pr', 4, ()), ('q', 2, (1, 1, 1))]
# ... and a by-name printer that is a falsy callable object, on a supertype of the classes printed / asked about
FALSY_ALPHABET = [('rnF', 1), ('rnF', 2), ('rn', 1), ('rc', 2), ('pr', 2, ()), ('pr', 4, ()), ('pr', 1, ()), ('q', 4, (1, 1, 0)), ('q', 2, (1, 1, 1))]

_drv = None


def _driver():
    global _drv
    if _drv is None:
        _drv = Driver()
    return _drv


def chunk_fn(histories):
    drv = _driver()
    mism, fails = [], []
    nt = 0
    for ops in histories:
        impl, req = run_history(ops)
        model = drv.ask(req)
        if impl != model:
            mism.append({'history': [list(o) for o in ops], 'impl': impl, 'model': model})
        # oracle: the printed values follow the history-defined rule
        spec = spec_trace(ops)
        got = impl[3:-1].strip()
        toks = got.replace('(p ', '(p_').split() if got else []
        toks = [t.replace('(p_', '(p ') for t in toks]
        if len(toks) == len(spec):
            for t, s in zip(toks, spec):
                if s is not None and t != s:
                    if len(fails) < 3:
                        fails.append({'kind': 'dispatch-not-nearest-latest', 'history': [list(o) for o in ops], 'observed': toks, 'expected': spec})
                    break
        if any(o[0] in ('rn', 'rnS') for o in ops) and any(o[0] == 'pr' for o in ops):
            nt += 1
    return len(histories), nt, mism, fails


def registry_section(tier, seed):
    rng = random.Random(seed * 29 + 4)
    L = 3 if tier == 'quick' else 4
    hist = []
    for n in range(1, L + 1):
        hist.extend(itertools.product(ALPHABET, repeat=n))
    if tier == 'thorough' and len(hist) > 400000:
        hist = hist[:7239] + rng.sample(hist[7239:], 250000)
    n_rand = 2000 if tier == 'quick' else 20000
    for _ in range(n_rand):
        k = rng.randint(5, 25)
        hist.append(tuple(rng.choice(ALPHABET) for _ in range(k)))
    # overlapping predicates: two predicate tags, values accepted by one, the other, or both, of a class with and without a class printer;
    # "the first-registered accepting predicate" must not depend on which values were printed before
    hist_pred = []
    for n in range(1, (4 if tier == 'quick' else 5) + 1):
        hist_pred.extend(itertools.product(PRED_ALPHABET, repeat=n))
    hist.extend(hist_pred)
    for n in range(1, (5 if tier == 'quick' else 6) + 1):
        hist.extend(h for h in itertools.product(SHARED_ALPHABET, repeat=n) if any(o[0] in ('rnS', 'rcS') for o in h) and h[-1][0] in ('pr', 'q'))
    for n in range(1, (4 if tier == 'quick' else 5) + 1):
        hist.extend(h for h in itertools.product(FALSY_ALPHABET, repeat=n) if any(o[0] == 'rnF' for o in h) and h[-1][0] in ('pr', 'q'))
    for _ in range(n_rand // 4):
        k = rng.randint(5, 15)
        hist.append(tuple(rng.choice(PRED_ALPHABET + ALPHABET[:8]) for _ in range(k)))
    chunks = [hist[i:i + 300] for i in range(0, len(hist), 300)]
    tot = nt = 0
    mism, fails = [], []
    with mp.Pool(min(NCPU, max(1, len(chunks)))) as pool:
        for n, t, mm, ff in pool.imap_unordered(chunk_fn, chunks):
            tot += n
            nt += t
            mism.extend(mm)
            fails.extend(ff)
    stats = {'evaluations': tot, 'distinct_nontrivial': nt, 'exhaustive_length': L, 'alphabet': len(ALPHABET), 'random_histories': n_rand,
             'mismatches': len(mism), 'exhaustive': True,
             'samples': [{'history': [list(o) for o in hist[5000 % len(hist)]]}, {'history': [list(o) for o in hist[-1]]}],
             'rule': 'all operation sequences of length <= 5 (thorough 6) ending in an observation over registrations that reuse one printer function object (by name / directly) next to fresh ones; all operation sequences of length <= 4 (thorough 5) over two overlapping predicates and values accepted by one, the other or both; all operation sequences of length <= %d over %d operations (register by class / by name / predicate, print instances of A, B(A), D(B,C), M(E,A), E, '
                     'is_registered with 6 flag combinations) on a fresh diamond + multiple-inheritance lattice, plus random histories of length 5-25; '
                     'observed: which printer ran, booleans, ValueError; non-trivial = histories containing a by-name registration and a print' % (L, len(ALPHABET))}
    return stats, mism, fails
