#!/bin/bash
# usage: regress_all.sh <outdir> [parallel] — every saved seeded change against the check of the property it breaks (VERIF_SEED / TIER from the environment),
# each in a private worktree; one result file per change, summary at the end
out=$1; par=${2:-5}; mkdir -p $out
ls -d ${VERIF_ROOT:-/verif}/seeded/C*_* | xargs -P $par -I{} bash -c 'd={}; label=$(basename $d); prop=$(python3 -c "import json,sys; m=json.load(open(\"$d/meta.json\")); print(m.get(\"check_property\") or m[\"breaks_property\"])"); ${VERIF_ROOT:-/verif}/tools/try_seed_wt.sh $d/patch.diff $prop > '$out'/$label.txt 2>&1'
for f in $out/C*.txt; do l=$(basename $f .txt); if grep -q "VIOLATION" $f; then if grep VIOLATION $f | grep -qv no-failing-input-found; then s=failing-input; else s=no-failing-input-found; fi; else s="MISSED $(grep -h "^==" $f | head -1)"; fi; echo "$l $s"; done > $out/summary.txt
grep -c failing-input $out/summary.txt; grep -v " failing-input" $out/summary.txt
