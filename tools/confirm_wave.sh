#!/bin/bash
# usage: confirm_wave.sh <seedout root> <out file> <Cxx/V> ...   — confirm each seed in a scratch worktree (sequentially)
root=$1; out=$2; shift 2
for item in "$@"; do
  label=$(echo $item | tr / _)
  if grep -q "^$label " $out 2>/dev/null; then continue; fi
  /verif/tools/confirm_seed.sh $root/$item w3_$label 2>&1 | tail -1 | sed "s/^w3_//" >> $out
done
echo WAVE-DONE >> $out
