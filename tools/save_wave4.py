#!/usr/bin/env python3
"""save_wave4.py — copy the confirmed fourth-wave seeded changes (/tmp/seedout4/<Cxx>/{A,B}) into /verif/seeded/<Cxx>_{E,F}/,
with what the checks reported first and what they report now (final_<Cxx>_<V>.txt, written by tools/try_seed_wt.sh)."""
import json, os, re, shutil
ROOT = '/tmp/seedout4'
FIRST = {  # first run of the property's check against the change, before any strengthening
 'missed': {
  'C03/B': "'//' paths added to the stdlib corpus and the stdlib section run under C03 with its own oracle",
  'C06/A': 'value-level one-line section added (every value whose one-line form fits must be printed on one line)',
  'C09/B': 'comments printed first in a fresh interpreter added',
  'C15/B': 'oracle for the answers of is_registered (check_deferred on / off) added',
  'C16/A': 'all 64 three-level annotation nestings added',
  'C18/B': 'effective-settings oracle and non-canonical truthy / falsy setting values added',
  'C17/A': 'call arguments under a non-default max_seq_len added',
  'C17/B': 'extras installed after a first print (fresh interpreter) added',
  'C19/A': 'every ordered pair of corpus values printed from a pristine forked state; same-named classes in the corpus',
  'C19/B': 'containers with a lying __len__ and trailing comments added to the purity corpus',
  'C14/A': 'predicate-registered instrumented printers (and a catch-all predicate printer) added to the fault trees; this also exposed defect F21',
  'C14/B': 'predicate-registered instrumented printers added to the fault trees',
  'C13/A': 'finite depth limits added to the graph section (reference DFS with a depth budget)',
  'C20/A': 'line-boundary scheduler (linesched.py) added; state inventory theorem C19.state_inventory',
  'C20/B': 'line-boundary scheduler with the ipython_repr_pretty extra; state inventory theorem',
  'C12/A': 'cost family: unorderable dict keys whose repr re-enters the printer, sorting switched on by set_default_config',
  'C12/B': 'cost families measured in a fresh interpreter with the ipython_repr_pretty extra (nested _repr_pretty_ objects)',
 },
 'disagreement-only': {
  'C18/A': 'explicit-vs-effective settings oracle added',
  'C11/B': 'depth x max_seq_len reference oracle added',
  'C02/A': 'a raising string layout is now a failing input of its own',
 },
}
conf = {}
for l in open(os.path.join(ROOT, 'confirm.txt')):
    p = l.split()
    if p and '_' in p[0]:
        conf[p[0]] = l.strip()
n = 0
for prop in sorted(os.listdir(ROOT)):
    if not re.fullmatch(r'C\d\d', prop):
        continue
    for var in ('A', 'B'):
        key = '%s/%s' % (prop, var)
        src = os.path.join(ROOT, prop, var)
        if not os.path.exists(os.path.join(src, 'patch.diff')):
            continue
        label = '%s_%s' % (prop, var)
        c = conf.get(label, '')
        if 'demo_clean_rc=0 demo_patched_rc=1' not in c or '74 passed' not in c:
            print('NOT CONFIRMED', key, c[:80])
            continue
        fin = os.path.join(ROOT, 'final_%s.txt' % label)
        now = open(fin).read() if os.path.exists(fin) else ''
        viol = re.findall(r'VIOLATION property=(\w+) replay=\S*/(\S+?)\.json( no-failing-input-found)?', now)
        if any('_fail_' in r or 'regressed' in r for _, r, nf in viol if not nf):
            now_s = '%s:failing-input' % prop
        elif viol:
            now_s = '%s:no-failing-input-found' % prop
        else:
            now_s = '%s:MISSED' % prop
        if key in FIRST['missed']:
            first = 'missed-first (%s)' % FIRST['missed'][key]
        elif key in FIRST['disagreement-only']:
            first = 'first only as a model/code disagreement without a failing input (%s)' % FIRST['disagreement-only'][key]
        else:
            first = 'failing-input at the first run'
        dst = os.path.join('/verif/seeded', '%s_%s' % (prop, {'A': 'E', 'B': 'F'}[var]))
        os.makedirs(dst, exist_ok=True)
        for f in ('patch.diff', 'demo.py', 'notes.md'):
            if os.path.exists(os.path.join(src, f)):
                shutil.copy(os.path.join(src, f), dst)
        notes = open(os.path.join(dst, 'notes.md')).read() if os.path.exists(os.path.join(dst, 'notes.md')) else ''
        meta = {'breaks_property': prop,
                'origin': 'fourth wave: written by an independent sub-agent that saw only the property text, a scratch worktree of /repo and short descriptions of the four earlier changes for this property (to avoid repeats)',
                'needs_to_manifest': notes.strip()[:1500],
                'confirmed_by_me': {'in_scratch_worktree': c, 'meaning': 'demo.py exits 0 on the clean tree and 1 with the patch; the pinned suite still gives 74 passed / the 4 always-failing tests'},
                'checks_run': {'first': first, 'now': now_s}}
        if key in ('C14/A', 'C17/B'):
            meta['rebased'] = 'patch rebased by hand onto fix F21 (which rewrote the lines it touches); same change otherwise'
        json.dump(meta, open(os.path.join(dst, 'meta.json'), 'w'), indent=1)
        n += 1
        print(key, now_s, '|', first[:60])
print('saved', n)
