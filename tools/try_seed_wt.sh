#!/bin/bash
# usage: try_seed_wt.sh <patch.diff> <prop> [<prop> ...] — like try_seed.sh but in a private scratch worktree of /repo HEAD
# (checks are pointed at it with VERIF_REPO), so that several can run side by side and /repo is never touched.
patch=$1; shift
wt=$(mktemp -d /tmp/seedtry.XXXXXX); rmdir $wt
git -C /repo worktree add -q --detach $wt HEAD || exit 2
if ! git -C $wt apply "$patch"; then echo "patch does not apply"; git -C /repo worktree remove --force $wt; exit 2; fi
mkdir -p /tmp/seed_evidence /tmp/seed_replays
for p in "$@"; do
  out=$(cd ${VERIF_ROOT:-/verif} && VERIF_REPO=$wt VERIF_EVIDENCE_DIR=/tmp/seed_evidence VERIF_REPLAYS_DIR=/tmp/seed_replays timeout 1800 /venv/bin/python harness/check.py $p --tier ${TIER:-quick} 2>&1; echo "EXIT-CODE=$?")
  rc=$(echo "$out" | grep -o 'EXIT-CODE=[0-9]*' | tail -1)
  echo "== $p: $(echo "$out" | grep -c VIOLATION) violation line(s) $rc"
  if [ "$rc" != "EXIT-CODE=0" ] && [ "$rc" != "EXIT-CODE=1" ]; then echo "$out" | grep -v -i conda | tail -4; fi
  echo "$out" | grep VIOLATION | head -3
done
git -C /repo worktree remove --force $wt
# the checks regenerate lean/PP/Generated.lean from the tree they look at: put the one of /repo back
(cd ${VERIF_ROOT:-/verif}/harness && /venv/bin/python -c "import translator; translator.regenerate()" > /dev/null 2>&1)
