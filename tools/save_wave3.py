#!/usr/bin/env python3
"""save_wave3.py — copy the confirmed third-wave seeded changes (/tmp/seedout3/<Cxx>/{A,B}) into /verif/seeded/<Cxx>_{C,D}/"""
import json, os, shutil, sys
ROOT = '/tmp/seedout3'
CONFIRM = os.path.join(ROOT, 'confirm.txt')
# what the checks reported when the change was applied to /repo (first run; "missed-first" = the check was strengthened afterwards and now reports it)
RESULT = {
 'C01/A': 'C01:failing-input', 'C01/B': 'C01:failing-input,C02:failing-input',
 'C02/A': 'C02:failing-input', 'C02/B': 'C02:failing-input',
 'C03/A': 'C03:failing-input', 'C03/B': 'C03:failing-input,C02:failing-input',
 'C04/A': 'C04:failing-input', 'C04/B': 'C04:failing-input',
 'C05/A': 'C05:failing-input', 'C05/B': 'C05:failing-input',
 'C06/A': 'C06:failing-input', 'C06/B': 'C06:failing-input',
 'C07/A': 'C07:failing-input', 'C07/B': 'C07:failing-input(missed-first: partial keywords named fn / ctx added to the stdlib corpus)',
 'C08/A': 'C08:failing-input(missed-first: subclass instances as dict keys / set elements added)', 'C08/B': 'C08:failing-input',
 'C09/A': 'C09:failing-input', 'C09/B': 'C09:failing-input',
 'C10/A': 'C10:failing-input', 'C10/B': 'C10:failing-input',
 'C11/A': 'C11:failing-input(first only as a model/code disagreement: reference pruning with typed placeholders added to the oracle)', 'C11/B': 'C11:failing-input',
 'C13/A': 'C13:failing-input', 'C13/B': 'C13:failing-input',
 'C14/A': 'C14:failing-input', 'C14/B': 'C14:failing-input(missed-first: the fault injector raised TypeError whatever class was asked for; fixed, RecursionError always included)',
 'C15/A': 'C15:failing-input', 'C15/B': 'C15:failing-input(missed-first: repeated registration of one predicate object added to the alphabet)',
 'C16/A': 'C16:failing-input', 'C16/B': 'C16:failing-input',
 'C17/A': 'C17:failing-input(missed-first: kwargs now reach pretty_call_alt as one-shot iterators too)', 'C17/B': 'C17:failing-input(missed-first: ClassVar / InitVar pseudo-fields added to the generated dataclasses)',
 'C18/A': 'C18:failing-input', 'C18/B': 'C18:failing-input',
 'C19/A': 'C19:failing-input(missed-first: two predicate printers and values matching one / both added to the purity corpus)', 'C19/B': 'C19:failing-input',
 'C20/A': 'C20:failing-input',
 'C12/A': 'C12:failing-input', 'C12/B': 'C12:failing-input',
}
RESULT.update(json.load(open(os.path.join(ROOT, 'extra_results.json'))) if os.path.exists(os.path.join(ROOT, 'extra_results.json')) else {})
conf = {}
for l in open(CONFIRM):
    p = l.split()
    if p and '_' in p[0]:
        conf[p[0]] = l.strip()
n = 0
for key, res in sorted(RESULT.items()):
    prop, var = key.split('/')
    label = '%s_%s' % (prop, var)
    c = conf.get(label, '')
    if 'demo_clean_rc=0 demo_patched_rc=1' not in c or '74 passed' not in c:
        print('NOT CONFIRMED', key, c[:80])
        continue
    dst = os.path.join('/verif/seeded', '%s_%s' % (prop, {'A': 'C', 'B': 'D'}[var]))
    os.makedirs(dst, exist_ok=True)
    for f in ('patch.diff', 'demo.py', 'notes.md'):
        src = os.path.join(ROOT, prop, var, f)
        if os.path.exists(src):
            shutil.copy(src, dst)
    notes = open(os.path.join(dst, 'notes.md')).read() if os.path.exists(os.path.join(dst, 'notes.md')) else ''
    meta = {'breaks_property': prop,
            'origin': 'third wave: written by an independent sub-agent that saw only the property text, a scratch worktree of /repo and one-paragraph descriptions of the two earlier changes for this property (to avoid repeats)',
            'needs_to_manifest': notes.strip()[:1500],
            'confirmed_by_me': {'in_scratch_worktree': c, 'meaning': 'demo.py exits 0 on the clean tree and 1 with the patch; the pinned suite still gives 74 passed / the 4 always-failing tests'},
            'checks_run': res}
    json.dump(meta, open(os.path.join(dst, 'meta.json'), 'w'), indent=1)
    n += 1
print('saved', n)
