#!/usr/bin/env python3
"""make_prompts.py <wave-number> — prompts for a new wave of seeded changes: /tmp/seedout<N>/<Cxx>/prompt.txt, scratch worktrees /tmp/seedwt<N>/<Cxx>.
Each prompt holds the property text, the rules, and the first lines of the notes of every change saved so far for that property."""
import glob, json, os, subprocess, sys
N = sys.argv[1]
OUT, WT = '/tmp/seedout%s' % N, '/tmp/seedwt%s' % N
props = [json.loads(l) for l in open('/verif/properties.jsonl')]
TEMPLATE = open('/verif/tools/seed_prompt_template.txt').read()
for p in props:
    pid = p['id']
    earlier = []
    for d in sorted(glob.glob('/verif/seeded/%s_*' % pid)):
        nf = os.path.join(d, 'notes.md')
        if os.path.exists(nf):
            earlier.append(open(nf).read().strip()[:520])
        else:
            m = json.load(open(os.path.join(d, 'meta.json')))
            earlier.append((m.get('what', '') or m.get('needs_to_manifest', '') or json.dumps(m))[:520])
    etxt = '\n\n'.join('--- earlier change %d ---\n%s' % (i + 1, e) for i, e in enumerate(earlier))
    os.makedirs(os.path.join(OUT, pid), exist_ok=True)
    wt = os.path.join(WT, pid)
    if not os.path.exists(wt):
        os.makedirs(WT, exist_ok=True)
        subprocess.check_call(['git', '-C', '/repo', 'worktree', 'add', '-q', '--detach', wt, 'HEAD'])
    txt = (TEMPLATE.replace('{WT}', wt).replace('{OUT}', os.path.join(OUT, pid)).replace('{PID}', pid).replace('{TITLE}', p['title'])
           .replace('{STATEMENT}', p['statement']).replace('{QUANT}', p['quantifier']['text']).replace('{EARLIER}', etxt))
    open(os.path.join(OUT, pid, 'prompt.txt'), 'w').write(txt)
print('prompts written to', OUT)
