#!/usr/bin/env python3
"""seed_table.py <suffixes e.g. CD> — markdown table rows for the seeded changes saved under /verif/seeded with these variant letters"""
import json, os, re, sys
letters = sys.argv[1] if len(sys.argv) > 1 else 'CD'
for d in sorted(os.listdir('/verif/seeded')):
    if d[-1] in letters and d[-2] == '_':
        m = json.load(open('/verif/seeded/%s/meta.json' % d))
        lines = [l.strip('# *-').strip() for l in m['needs_to_manifest'].split('\n') if l.strip()]
        title = re.sub(r'^C\d\d\s*/?\s*[A-D]?\s*[—:-]*\s*', '', lines[0])
        title = re.sub(r'^(seeded bug|seed)\s*[A-D]?\s*[—:-]*\s*', '', title, flags=re.I)
        title = re.sub(r'^\(wave \d\)\s*[A-D]?\s*[—:-]*\s*', '', title)
        if len(title) < 25 and len(lines) > 1:
            title = title + ' — ' + lines[1]
        res = m['checks_run']
        if isinstance(res, dict):
            first, now = res.get('first', ''), res.get('now', '')
            note = '' if first.startswith('failing-input') else first.replace('missed-first (', 'missed first: ').replace('first only as a model/code disagreement without a failing input (', 'first only a model/code disagreement: ').rstrip(')')
            caught = now.replace(':failing-input', ' (failing input)').replace(':no-failing-input-found', ' (no-failing-input-found)')
        else:
            mm = re.search(r'\(((missed-first|first only)[^)]*)\)', res)
            note = mm.group(1) if mm else ''
            caught = re.sub(r'\(.*?\)', '', res).replace(':failing-input', ' (failing input)')
        print('| %s | %s | %s | %s |' % (d, title[:160].replace('|', '/'), caught, note[:260]))
