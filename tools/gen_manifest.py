#!/usr/bin/env python3
"""Writes /verif/MANIFEST.json from the table below (kept next to the checks so the two cannot drift)."""
import json
import os

VERIF = os.path.dirname(os.path.dirname(os.path.abspath(__file__)))

ALL = ['C%02d' % i for i in range(1, 21)]

CLAIMS = {
    'C01': {
        'text': "Lean theorems C01.canon_reads_back (the canonical tokens of every value of the built-in literal types read back, by the reader of Spec/Reader.lean, to exactly that value: container types, element order, insertion order of dicts, string contents, literal texts) and C01.output_reads_back (chained with C03.output_tokens: what pformat prints has, up to literal splitting, such a token sequence); the reader and the token spec are tied to CPython eval / tokenize on every run. Engine soundness (C04.sound) and splitter theorems (C02) apply to pformatM = render . layout . toDoc; C01.canon_reads_back' / output_reads_back' extend both to the whole readable fragment inRd (subclass instances and call-style objects nested anywhere; Tok.inC01_inRd); C01.output_reads_back_sorted (with sort_dict_keys on, the tokens read back to the value with every dict's entries in sorted order; Tok.inC01_shown), C01.sorted_perm (key sorting only permutes entries), insertion_order. The hand-written model of every built-in printer (PP/Model/Values.lean) is tied to /repo by exact comparison of the annotated SDoc stream and text of python_to_sdocs on all small value trees over an adversarial leaf alphabet at width=ribbon=1..12 and on seeded random trees x 10-18 widths x ribbons x indents x sort flags; the oracle eval('(' + text + ')') with exact type / NaN / signed-zero / order comparison runs on every implementation output.",
        'note': 'value-level end-to-end theorem (reader . pformatM = id / token invariance) is not proved yet: the claim rests on C04.sound_pformat (unconditional) for the engine, C02 for the splitter, the listed syntactic lemmas about the printer model, the model=code correspondence on SDoc streams, and the CPython oracle run on every implementation output',
        'technique': 'Lean 4 proof (engine + splitter) + differential correspondence of the printer model + eval oracle',
        'design_ref': 'DESIGN.md section 5, C01',
    },
    'C03': {
        'text': "Lean theorem C03.layout_invariant: for every well-formed value (all built-ins, subclass wrappers, call-style printers, comments and trailing comments anywhere, truncation / depth limits, sorted dicts) two pformat calls differing only in width, ribbon_width and indent emit the same code tokens up to TEq (implicit concatenation of adjacent literals, parentheses around split literals); C03.output_tokens gives the tokens explicitly (canonW, a function of the value and of depth / max_seq_len / sort only); any_layout_tokens extends it to every layout the reference semantics allows. Built from Tok.ctoks_lay (token invariance over Lay), Tok.evalStr_tokens (the string evaluator, via C02.lines_join / unescape_escape), Tok.toDocW_ok (all printers) and C04.sound_pformat. The spec tokenizer and canonW are validated against CPython's tokenize on every run (section tokens). Correspondence as C01 on built-in values, commented values, subclass instances and pretty_call objects; the oracle compares ast.dump across all layout settings of each value and checks every line's indentation is a multiple of indent; C03.nests_are_indent.",
        'note': "the theorem is about code tokens (comments dropped, literals decoded), TEq's parenthesis rule is context-free, and 'every output line is indented by a multiple of indent' is checked by the oracle only; trusted: Lean kernel, the hand-written model tied by the SDoc-stream correspondence, the token spec tied to tokenize by the tokens section",
        'technique': 'Lean 4 proof (token invariance across all layouts, end to end on the model) + differential correspondence + ast / tokenize oracle',
        'design_ref': 'DESIGN.md section 5, value level / token invariance',
    },
    'C08': {
        'text': 'C08.wrapper_seq / wrapper_int / wrapper_shape: in the model a subclass instance prints as a call of the class around exactly the document of the underlying built-in value; the model has no input for __repr__/__str__ overrides. On tokens (via C03.output_tokens, so for every layout): C08.seq_wrapper_tokens / dict_wrapper_tokens / int_wrapper_tokens / str_wrapper_tokens — the code tokens of the output are the class name, an opening parenthesis, exactly the tokens of the underlying built-in value, a closing parenthesis. Correspondence on instances of 36 generated subclasses (9 bases x plain / __repr__ / __str__ / both) + IntEnum in 6 nesting contexts x layouts; oracle: eval reconstructs class and value. Evaluation clause on tokens: the reader of Spec/Reader.lean (now with calls) reads the canonical tokens of every subclass instance as the call of the class name on the reading of the underlying value (Tok.canon_reads over the fragment inRd; C08.seq_denotes / seq_empty_denotes / dict_denotes / frozenset_denotes / int_denotes / str_denotes / float_denotes / float_special_denotes say what that is; C08.output_reads_back chains it with C03.output_tokens for every layout); the reader is tied to CPython by comparing its reading with ast.parse of the implementation text (section reader). F6, F7, F17 repaired.',
        'note': 'value-level end-to-end theorem (reader . pformatM = id / token invariance) is not proved yet: the claim rests on C04.sound_pformat (unconditional) for the engine, C02 for the splitter, the listed syntactic lemmas about the printer model, the model=code correspondence on SDoc streams, and the CPython oracle run on every implementation output',
        'technique': 'Lean 4 proof (wrapper lemmas) + differential correspondence + eval oracle',
        'design_ref': 'DESIGN.md section 5, C08',
    },
    'C09': {
        'text': 'Lean theorem C09.comment_inert: comment() annotations at any nodes do not change a single code token of the output at any width / ribbon / indent / max_seq_len (hypotheses = the listed findings K5, K8); C09.trailing_adds_comma states the exact effect of a trailing comment. C09.comments_do_not_change_the_reading (with erase_bare, over Tok.canon_reads): for both kinds of comments, at any nodes, with the limits off and at every layout, the output of the commented value and the output of the bare value read back (reader of Spec/Reader.lean) to the same expression; the one exception is the listed finding K7. Correspondence of the comment machinery (commentdoc, sequence_of_docs, build_fncall, dict pairs, top level) on comment/trailing_comment wrappers at every single node of small trees and random nodes of random trees with adversarial texts; oracle: eval equals the uncommented value, same ast across layouts, comment words preserved (tokenize). C09.commentdoc_lines, empty_comment_ignored. Known finding K4 (trailing comments on values that cannot hold one are dropped). F4, F5 repaired.',
        'note': 'value-level end-to-end theorem (reader . pformatM = id / token invariance) is not proved yet: the claim rests on C04.sound_pformat (unconditional) for the engine, C02 for the splitter, the listed syntactic lemmas about the printer model, the model=code correspondence on SDoc streams, and the CPython oracle run on every implementation output',
        'technique': 'differential correspondence + tokenize/eval oracle; Lean lemmas on commentdoc',
        'design_ref': 'DESIGN.md section 5, C09',
    },
    'C10': {
        'text': 'Lean theorems Limits.limits_tokens (printing with max_seq_len = N, depth = d and any sort flag emits the tokens of printing, without limits, the shown value: first N elements of every container, a trailing comment exactly where something was dropped, placeholders exactly at the depth cut) and Limits.limit_that_does_not_bite (a limit at least as large as every container changes nothing). C10.no_limit (None truncates nothing, attaches no comment), large_limit, truncation_text (the comment states len - N). Correspondence and oracle on container trees x max_seq_len in {1..longest+1, None} x widths: eval == first-N truncation at every level, one comment per truncated container with the exact count, None == large limit. F8 repaired.',
        'note': 'value-level end-to-end theorem (reader . pformatM = id / token invariance) is not proved yet: the claim rests on C04.sound_pformat (unconditional) for the engine, C02 for the splitter, the listed syntactic lemmas about the printer model, the model=code correspondence on SDoc streams, and the CPython oracle run on every implementation output',
        'technique': 'Lean 4 lemmas on the truncation arithmetic + differential correspondence + eval oracle',
        'design_ref': 'DESIGN.md section 5, C10',
    },
    'C11': {
        'text': 'Lean theorems Limits.limits_tokens / shown_canon (the output for depth d is the unlimited output of the value with exactly the nodes at the cut replaced by placeholders of their own type; K2 / K5 visible in the definition of shown) and Limits.limit_that_does_not_bite (depth above the levels of the value = depth None). C11.depth_zero_placeholder, unlimited_never_zero. Correspondence and oracle on container trees with unique leaves x depth in {0..height+2, None}: exactly the leaves nested in fewer than depth containers appear; depth > height == None; the whole output equals (as a syntax tree) a reference pruning with typed placeholders, also under max_seq_len 1 and 2 (containers longer than the limit above, at and below the cut). Known findings K2 (None/bool/Ellipsis leaves), K5 (str dict keys at the cut).',
        'note': 'value-level end-to-end theorem (reader . pformatM = id / token invariance) is not proved yet: the claim rests on C04.sound_pformat (unconditional) for the engine, C02 for the splitter, the listed syntactic lemmas about the printer model, the model=code correspondence on SDoc streams, and the CPython oracle run on every implementation output',
        'technique': 'Lean 4 lemmas + differential correspondence + leaf-visibility oracle',
        'design_ref': 'DESIGN.md section 5, C11',
    },
    'C17': {
        'text': 'C17.empty_call, hug_only_exact; on tokens (via C03.output_tokens, for every layout): C17.call_tokens / kw_tokens — the name, the positional arguments in order, then name = value for the keyword arguments in the order given, each argument with exactly the tokens it has when printed alone, between one pair of parentheses. Correspondence on objects printed through pretty_call_alt (0-3 positional, 0-2 keyword arguments, nested calls, commented arguments) alone and nested; oracle: eval rebuilds the same callable with arguments in order. Evaluation clause on tokens: C17.output_reads_back / call_denotes / kwargs_denote — the output of every layout reads back (reader of Spec/Reader.lean, tied to the ast module of CPython on every run) as the call of the name on the positional arguments in order followed by the keyword items in the order given. Dataclasses / attrs extras: the field selection is modelled (PP/Model/Fields.lean, parametric in the != of the user) and proved: C17.fields_shown_iff (a keyword argument is printed exactly for the fields with repr enabled that have no default or whose default != the value), fields_in_declaration_order, fields_rebuild (calling the class with the printed arguments stores in every repr field the same value or a default that != does not tell apart), hidden_field_rebuilt_from_default, instance_tokens; tied to /repo by sending generated class definitions with current values to the model, which selects the fields itself (cross-checked with the prescription computed from the class description).',
        'note': 'value-level end-to-end theorem (reader . pformatM = id / token invariance) is not proved yet: the claim rests on C04.sound_pformat (unconditional) for the engine, C02 for the splitter, the listed syntactic lemmas about the printer model, the model=code correspondence on SDoc streams, and the CPython oracle run on every implementation output',
        'technique': 'Lean 4 lemmas + differential correspondence + eval oracle',
        'design_ref': 'DESIGN.md section 5, C17',
    },
    'C02': {
        'text': "Lean theorems C02.lines_join (splitting never loses, duplicates or reorders characters: the pieces concatenate to the value, for every positive budget, quote, str/bytes value and pattern), C02.lines_nonempty (no empty piece), termination of the splitter loop (the termination_by clause of PyStr.go, whose progress facts are carried as proof arguments), C02.budget_positive (the 10-column floor), C02.quote_is_quote, C02.escape_is_repr (repr + the two replace chains = repr's escaping with the forced quote), C02.unescape_escape (the escaped body decoded as a Python literal is the value, for every str/bytes value and either quote) and C02.pieces_decode. The spec decoder is validated against CPython's eval on every implementation output and on adversarial literal bodies. The model of repr, escape_str_for_quote (repr + the two replace chains, literally), re.split and the loop is tied to /repo by calling str_to_lines / escape_str_for_quote / determine_quote_strategy directly on every str and bytes over an 8-letter adversarial alphabet up to length 4 (thorough 5) x max_len 1..12 x both quotes, and by running pretty_str's contextual document through layout_smart in prefix/nest contexts x 4 strategies x widths; the literal-evaluates-back oracle runs on every implementation output.",
        'note': "the escape/unescape round trip is checked by the oracle (eval of every printed literal), not yet by a theorem; character classification bits are inputs to the model",
        'technique': 'Lean 4 proof (loop invariants as dependent arguments; join/non-empty lemmas) + differential correspondence + eval oracle',
        'design_ref': 'DESIGN.md section 5, C02',
    },
    'C15': {
        'text': "Lean theorem C15.refines: for EVERY history of registrations (by class, by name, by predicate), prints and is_registered queries and every value, the printer chosen by the registry state machine (model of register_pretty / is_registered / _promote_deferred / singledispatch) is the latest registration of the nearest class of the value's MRO (deferred = direct), else the first-registered accepting predicate, else repr — proved by the refinement invariant inv_run (effective registration = latest in history) and dispatch_after_isRegistered; C15.no_effect: register_deferred=False leaves the state untouched. Tied to /repo by running all operation sequences of length <= 3 (thorough 4) over 24 operations on a fresh diamond + multiple-inheritance lattice plus random histories of length 5-25, comparing which printer ran, booleans and ValueError; an independent history-defined oracle is evaluated on the implementation's results. F12 repaired.",
        'note': "singledispatch on plain classes is modelled as 'first class of type.__mro__ in the registry'; ABC registration is out of scope; model = code only on the explored histories",
        'technique': 'Lean 4 proof (refinement of a state machine to a history-defined spec) + differential correspondence (exhaustive short histories)',
        'design_ref': 'DESIGN.md section 5, C15',
    },
    'C19': {
        'text': "Lean theorems C15.history_independent (printing / querying never changes the printer a later print uses: it depends on the registration history alone) and C19.pure_function (no hidden state reaches the model). C19.state_inventory ties that to the source: the list of call-outliving state visible in the package's syntax (globals rebound from functions, module-level objects mutated in place, caching / dispatching decorators, mutable defaults, class-level mutable displays), regenerated from /repo on every run, equals the list of state components the models account for (registry, default configuration, cpprint's style, install hooks) - a new memo table or cache breaks the theorem. Runtime part (partial): a corpus of 83 values (built-ins, cycles, shared substructure, both zeros, stdlib types incl. struct sequences, unregistered objects, predicate-registered printers, same-named classes) printed (a) as every ordered pair and sampled triples from a forked state in which nothing has been printed yet, (b) in random permutations with repetitions under several settings, every output compared with the one obtained when the value is printed first in a fresh interpreter; canonical deep snapshots of all inputs before and after.",
        'note': "partial: input immutability cannot be stated over immutable model values and is checked by snapshots only; mutation through user __eq__/__hash__/__missing__ side effects or generators is not covered",
        'technique': 'Lean 4 proof (history independence via the C15 refinement) + fresh-interpreter / permutation / snapshot exploration',
        'design_ref': 'DESIGN.md section 5, C19',
    },
    'C20': {
        'text': "Lean theorem C20.linearizable: in the small-step model of pretty_python_value's registry part (one step per access to the deferred dict / singledispatch object, after the F16 repair), for ANY number of threads, ANY classes, ANY starting registry state and EVERY schedule, each finished thread obtained exactly the printer a sequential print obtains; the model is total, so no step can raise. Proof: global invariant (effective registrations constant, deferred entries only disappear) + per-thread program-counter invariants, preserved by every step (step_inv) and stable under other threads' steps. C19.state_inventory (regenerated from the source on every run): the registry is the only state on the pformat path that outlives a call, so the small-step model covers all shared state. Runtime part: real threads under a deterministic scheduler with a switch point at every such access; all schedules with <= 2 (thorough 3) pre-emptions for 7 scenarios; per schedule the results equal the sequential ones, nothing raises, and the global access log equals the Lean model's log for the same schedule. Second scheduler (line boundaries inside the package, sys.settrace): for every ordered pair of values of three scenarios (directly / by name / by predicate registered and unregistered classes, lazily registered stdlib types, dataclasses / attrs / ipython_repr_pretty extras) thread 1 is suspended at its k-th package line, thread 2 prints completely, thread 1 resumes, plus sampled two-pre-emption schedules; every schedule forks from a pristine state; both texts must equal a sequential result.",
        'note': "partial: atomicity granularity = one dict / singledispatch operation (atomic under the GIL); pre-emption inside such an operation, free-threaded builds, concurrent registration and cpprint's global colour palette are not covered",
        'technique': 'Lean 4 proof (invariant over all interleavings of a small-step model) + deterministic-scheduler exploration of real threads with log-level correspondence',
        'design_ref': 'DESIGN.md section 5, C20',
    },
    'C18': {
        'text': "Lean theorems C18.merge_spec (explicit arguments override, defaulted ones take the default, all six settings), explicit_none_is_a_value, set_changes_given / set_nothing / after_sets (after ANY sequence of set_default_config calls each setting is the last value given for it, indent untouched), entry_points (pprint = pformat ++ end, PrettyPrinter and pretty_repr = pformat), and signatures_agree / shipped_defaults decided over the tables regenerated from /repo's source on every run (pformat, pprint, cpprint take the same six settings = keys of _default_config; set_default_config all but indent). Tied to /repo by random set_default_config sequences x explicit/defaulted subsets x 3 values x {pformat, pprint, cpprint colour-off, PrettyPrinter.pformat/pprint, pretty_repr} x end strings, compared with the model (text, reported defaults, effective settings) and with each other. F15 repaired.",
        'note': "the stream argument and sys.stdout defaulting are exercised but not modelled; cpprint is compared with colour off only (colour is C16)",
        'technique': 'Lean 4 proof (configuration algebra, induction over set_default_config sequences, decide over regenerated tables) + translator + differential correspondence',
        'design_ref': 'DESIGN.md section 5, C18',
    },
    'C16': {
        'text': "Lean theorems over the model of colored_render_to_stream: C16.strip (for EVERY SDoc stream, removing the styling gives exactly the plain rendering), C16.innermost (interpreting the written SGR sequences with the terminal state machine, every character is shown in the style of the innermost open syntax-token annotation, the enclosing style being restored when an inner token ends; non-token annotations change nothing), C16.ends_reset (the stream always ends in the reset state), C16.table_total / tokens_exist (decide over the tables regenerated from /repo: every token the printers attach has a pygments mapping), styleOf_total; with C04.ann_balanced the annotations of every layout are well bracketed. Tied to /repo by rendering values and small annotated documents with colour forced on under all installed pygments styles + the two bundled ones and comparing the byte stream with the model; an SGR decoder oracle checks stripped text == pformat text and final reset on every implementation output. F13, F14 repaired.",
        'note': "colorful / pygments are environment: a style is opaque to the model; 'every style string starts with reset' is validated over all 32 attribute shapes on every run",
        'technique': 'Lean 4 proof (state-machine simulation of the colour stack) + translator tables + differential correspondence over all styles + SGR decoder oracle',
        'design_ref': 'DESIGN.md section 5, C16',
    },
    'C13': {
        'text': "Lean model of printing an object graph with the visited set (unfold, total by well-founded recursion on the number of objects not on the current path — this IS the termination claim for every finite graph); theorems C13.marker_iff_on_path (a container becomes a recursion marker exactly when it is reached again while being printed, and nowhere else), shared_printed_in_full, marker_text (names type and identity), no_residue. Tied to /repo by printing real list/dict/tuple graphs (all 2-node graphs with <= 2 children, sampled 3-node graphs, random graphs of 3-12 nodes, witnesses) at two widths and under a finite depth limit, printing them again and re-printing the previous value; the text is compared with the model (real id() digits substituted) and the marker/bracket sequence with an independent path-based DFS. F10 repaired.",
        'note': "the visited set is modelled as the current DFS path, which is what the try/finally of the F10 repair guarantees; a regression of that repair shows as a correspondence failure and in the fixed-finding replay",
        'technique': 'Lean 4 proof (well-founded unfolding of a graph, marker characterisation) + differential correspondence + reference-DFS oracle',
        'design_ref': 'DESIGN.md section 5, C13',
    },
    'C14': {
        'text': "Lean theorem C14.contained: for EVERY tree of instrumented objects and EVERY invocation index k inside it, if the k-th printer invocation raises, printing returns the fault-free result with exactly that value replaced by its repr and exactly one warning naming that value's printer (run_fault / run_noFault by mutual structural induction with the invocation counter generalised); fault_free, independent, bad_return (ValueError at top level), bad_return_nested. Tied to /repo by running every tree of <= 4 (thorough 5) objects x every invocation index x exception classes incl. TypeError x {plain, under trailing_comment} x printers with / without a trailing_comment parameter x printers registered by class and by predicate (plus a catch-all predicate printer), bad return values at every index and sampled fault pairs, each followed by a fault-free call; observed: which values fell back to repr (parsed from the output), which printers the warnings name, escaping ValueError. F10, F11, F21 repaired.",
        'note': "faults are injected at printer entry; the model does not distinguish exception classes (the correspondence does)",
        'technique': 'Lean 4 proof (mutual induction over trees, invocation counter) + exhaustive fault enumeration as correspondence',
        'design_ref': 'DESIGN.md section 5, C14',
    },
    'C12': {
        'text': "Lean theorems C12.doc_linear and C12.layout_quadratic_in_value: the document of any well-formed value is linear in its weight (nodes, string and comment lengths) and the layout work at most quadratic in it, at every setting. Termination: every function of the model is total (Lean accepts fitsFast, fitsSmart, run, PyStr.go, replaceAll, Graph.unfold only with their termination proofs; C02.budget_positive gives the splitter its positive budget). Work: C12.machine_quadratic — for every document, width, ribbon and both strategies the layout machine and all lookaheads it starts cost at most (size + 2)^2 loop iterations, where `size` counts only the larger alternative of every flat_choice (so documents that share a sub-document between alternatives, as all comment printers do, are measured without duplication); fits_linear / fits_smart_linear (one lookahead <= size + 1); Doc.size_normalize (normalisation never exceeds the pre-paid size); string_pieces_linear; build_linear_partial (without commented dict values: at most one printer invocation per node, incl. comments at every level elsewhere); commented_dict_exponential (known finding K3: 2^n invocations). Runtime part (partial): sys.monitoring LINE events inside the package on 19 families + random wrapper recipes at n, 2n, 4n (8n): doubling ratio <= 9, step budget, and steps <= 400 x model cost (printer invocations + actual machine and lookahead iterations computed by the model).",
        'note': "partial: CPython's step count is tied to the model by measurement (calibrated constant, 4x margin); document size linear in value size is proved for printer invocations only, not yet for the document measure",
        'technique': 'Lean 4 proof (termination measures; quadratic bound by induction on the machine with a branch-max size measure) + step-count measurement with cost refinement',
        'design_ref': 'DESIGN.md section 5, C12',
    },
    'C07': {
        'text': "Lean theorems: C07.timedelta (for EVERY timedelta — any sign, zero, min, max, -1 microsecond — the days (written as years * 365 + rest), hours, minutes, seconds, milliseconds, microseconds the printer shows, fed to the constructor and negated when the printer prefixes '-', give back exactly the original duration: integer arithmetic), timedelta_ranges, dropWhile_zero_restores / time_fields (dropping the leading run of zero time fields and defaulting the missing ones restores hour, minute, second, microsecond), datetime_date_only, chainmap_shortcut (the empty-call form only for no maps / one empty map), deque_maxlen. C07.printer_inventory: the list of printers the core package registers, regenerated from the source on every run, equals the list the models account for (one is recorded as unreachable on CPython 3.12: the printer registered for _ast.AST); the evidence lists which of them the corpus invoked. The printers of pretty_stdlib.py are modelled as functions from the object's observable fields to a call shape / identifier / timedelta document (PP/Model/Std.lean) and tied to /repo on 179 instances incl. boundary values (leading-zero fields, fold=1, fixed-offset / named / pytz zones incl. localized DST zones, empty and bounded deques, ChainMap shapes, Counter, partial, exceptions, pure paths, enums, namedtuples, SimpleNamespace, UUID, mappingproxy, defaultdict factories) alone and in nesting contexts x layouts incl. very wide ones; oracle: no repr-fallback warning, eval with the modules in scope reconstructs an equal object of the same type (maxlen, default_factory, func/args/keywords, fold, tzname compared too). Totality of the built-in printers is exercised by the C01 value section. F9, F18 repaired.",
        'note': "the stdlib constructors' semantics (normalisation of timedelta, defaults of datetime/time) are modelled, not verified; the per-type faithfulness theorems cover timedelta, time/datetime fields, ChainMap and deque; the other printers are plain call shapes checked by correspondence + eval",
        'technique': 'Lean 4 proof (integer arithmetic, list lemmas) + differential correspondence + eval oracle',
        'design_ref': 'DESIGN.md section 5, C07',
    },
    'C04': {
        'text': "The oracle is proved: checkLay_sound / checkLay_iff (the matcher accepts exactly the renderings in Lay on documents without string contextuals). Lean theorems C04.sound / sound_plain / sound_str / sound_pformat (the last three without hypothesis: Pr.evalStr_bounded proves the evaluator-size hypothesis for pretty_str's evaluator; the stack machine's output is a rendering of the document in the reference semantics Lay, for every document, width, ribbon and both strategies), ann_balanced (push/pop well bracketed), render_trim (the renderer only trims trailing whitespace), with lay_normalize (Lay closed under normalisation). The model is tied to /repo by exact comparison of SDoc streams and rendered text on all documents <= 4 (thorough: 5) nodes x 96 configurations plus seeded random documents. The forcing clause for bare hardline is known finding K1.",
        'note': "trusted: Lean kernel; model = code only on the explored inputs; ribbon fractions restricted to float-exact ones; FlatChoice lazy normalisation modelled as a pure function",
        'technique': 'Lean 4 proof (soundness w.r.t. inductive reference semantics) + differential correspondence',
        'design_ref': 'DESIGN.md section 5, C04',
    },
    'C05': {
        'text': "Lean theorem C05.rest_of_line: in every machine state over classic documents whose top item is a group, for every width, ribbon and both strategies, if the fitting predicate holds (the group is laid out flat, C05.flat_iff_fits) then everything emitted up to the next line break ends within the page width and within indent + ribbon. Proof: fast predicate = predicate with indentation erased (fitsFast_eq_fitsE), monotone in modes (fitsE_mono), smart => fast (smart_imp_fast), simulation invariant along the machine run (sim). Tied to /repo by the classic-algebra engine correspondence; the overflow oracle (group decisions recorded through a recording fitting predicate) is evaluated on the implementation for every enumerated document. K1 (bare hardline inside a flat group) is a listed known finding.",
        'note': "the theorem's algebra omits align (covered by correspondence and oracle only); model = code only on the explored inputs",
        'technique': 'Lean 4 proof (simulation invariant over the stack machine) + differential correspondence + implementation-side oracle',
        'design_ref': 'DESIGN.md section 5, C05',
    },
    'C06': {
        'text': "Lean theorems C06.fits_iff_spec (the fast predicate holds iff no forced break starts on the current line and the flat text up to the first line break is at most the budget — a budget-free scan, fitsE_iff_scan), C06.broken_only_if (a group is laid out broken only for one of the reasons the property allows) and C06.flat_only_if, for every classic stack, width, ribbon. Tied to /repo by the classic-algebra engine correspondence; the one-line-stability oracle is evaluated on the implementation.",
        'note': "partial for the smart strategy: its extra reason is stated (fast accepts, smart rejects a following line) but not characterised denotationally; value-level (pformat) one-line stability is checked by the oracle only until the printer model lands",
        'technique': 'Lean 4 proof (predicate = denotational scan) + differential correspondence + implementation-side oracle',
        'design_ref': 'DESIGN.md section 5, C06',
    },
}


def main():
    checks = []
    for pid in ALL:
        if pid not in CLAIMS:
            continue
        c = CLAIMS[pid]
        checks.append({
            'property_id': pid,
            'quick_cmd': '/venv/bin/python harness/check.py %s --tier quick' % pid,
            'thorough_cmd': '/venv/bin/python harness/check.py %s --tier thorough' % pid,
            'evidence_file': 'evidence/%s.json' % pid,
            'replay_cmd_template': '/venv/bin/python harness/check.py %s --replay {path}' % pid,
            'engine': 'lean-pp',
            'level_claimed': {'category': 'proof', 'text': c['text'], 'design_ref': c['design_ref']},
            'level_note': c['note'],
            'technique': c['technique'],
        })
    man = {
        'version': 1,
        'setup_cmd': 'cd lean && lake build PP ppdriver',
        'hooks': {
            'guard': 'PRETTYPRINTER_VERIF',
            'enable': 'no hooks in /repo are needed: every observation point is reached through importable functions, sys.settrace and sys.monitoring',
            'baseline_off_cmd': 'cd /repo && /venv/bin/python -m pytest -ra -q -p no:cacheprovider --timeout=900 --continue-on-collection-errors',
            'source_commits': [],
            'add_only': True,
        },
        'engines': [{'name': 'lean-pp', 'path': 'lean', 'serves_properties': sorted(CLAIMS),
                     'kind_free_text': 'Lean 4 model + theorems (lake project PP), compiled driver ppdriver, Python differential harness'}],
        'checks': checks,
        'not_applicable': [{'property_id': p, 'reason': 'check not built yet (work in progress; the technique applies)'}
                           for p in ALL if p not in CLAIMS],
        'notes': 'fix: commits in /repo repair defects F1-F16 (see known_findings.json, DESIGN.md section 7)',
    }
    with open(os.path.join(VERIF, 'MANIFEST.json'), 'w') as f:
        json.dump(man, f, indent=1)
    print('wrote MANIFEST.json with %d checks' % len(checks))


if __name__ == '__main__':
    main()
