#!/usr/bin/env python3
"""save_seed.py <seedout dir e.g. C04/A> <caught-by e.g. 'C04:fail,C05:no-input'> — copy a confirmed seeded change into /verif/seeded/"""
import json, os, shutil, sys
src = os.path.join('/tmp/seedout', sys.argv[1])
prop, variant = sys.argv[1].split('/')
dst = os.path.join('/verif/seeded', '%s_%s' % (prop, variant))
os.makedirs(dst, exist_ok=True)
for f in ('patch.diff', 'demo.py', 'notes.md'):
    if os.path.exists(os.path.join(src, f)):
        shutil.copy(os.path.join(src, f), dst)
confirm = ''
for cf in ('/tmp/seedout/confirm1.txt', '/tmp/seedout/confirm2.txt', '/tmp/seedout/confirm3.txt'):
    if os.path.exists(cf):
        for l in open(cf):
            if l.startswith('%s_%s ' % (prop, variant)):
                confirm = l.strip()
notes = open(os.path.join(src, 'notes.md')).read() if os.path.exists(os.path.join(src, 'notes.md')) else ''
meta = {
    'breaks_property': prop,
    'origin': 'written by an independent sub-agent that saw only the property text and a scratch worktree of /repo',
    'needs_to_manifest': notes.strip()[:1500],
    'confirmed_by_me': {'in_scratch_worktree': confirm,
                        'meaning': 'demo.py exits 0 on the clean tree and 1 with the patch; the pinned suite still gives 74 passed / the 4 always-failing tests'},
    'checks_run': sys.argv[2] if len(sys.argv) > 2 else '',
}
json.dump(meta, open(os.path.join(dst, 'meta.json'), 'w'), indent=1)
print('saved', dst)
