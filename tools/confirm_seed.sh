#!/bin/bash
# usage: confirm_seed.sh <seed dir containing patch.diff and demo.py> <label>
# In a scratch worktree of /repo HEAD: demo passes on the clean tree, fails with the patch; the pinned suite still gives the baseline.
sd=$1; label=$2
wt=/tmp/confirm_wt_$label
rm -rf $wt; git -C /repo worktree add -q --detach $wt HEAD || exit 2
cd $wt
PYTHONPATH=$wt /venv/bin/python $sd/demo.py > /tmp/confirm_$label.clean.log 2>&1; rc_clean=$?
git apply $sd/patch.diff || { echo "$label APPLY-FAILED"; cd /; git -C /repo worktree remove --force $wt; exit 1; }
PYTHONPATH=$wt /venv/bin/python $sd/demo.py > /tmp/confirm_$label.patched.log 2>&1; rc_patched=$?
suite=$(PYTHONPATH=$wt timeout 1500 /venv/bin/python -m pytest -q -p no:cacheprovider --timeout=900 --continue-on-collection-errors -n 4 2>&1 | tail -1)
cd /; git -C /repo worktree remove --force $wt
echo "$label demo_clean_rc=$rc_clean demo_patched_rc=$rc_patched suite: $suite"
