#!/bin/bash
# usage: try_seed.sh <patch.diff> <prop> [<prop> ...]   — applies the patch to /repo, runs the quick checks, reverts.
patch=$1; shift
cd /repo || exit 2
if [ -n "$(git status --short)" ]; then echo "/repo not clean"; exit 2; fi
git apply "$patch" || { echo "patch does not apply"; exit 2; }
for p in "$@"; do
  mkdir -p /tmp/seed_evidence /tmp/seed_replays
  out=$(cd /verif && VERIF_EVIDENCE_DIR=/tmp/seed_evidence VERIF_REPLAYS_DIR=/tmp/seed_replays timeout 1800 /venv/bin/python harness/check.py $p --tier ${TIER:-quick} 2>&1 | grep -v -i conda)
  rc=$?
  echo "== $p: $(echo "$out" | grep -c VIOLATION) violation line(s)"
  echo "$out" | grep VIOLATION | head -3
done
git -C /repo checkout -- .
git -C /repo status --short
