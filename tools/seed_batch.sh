#!/bin/bash
# usage: seed_batch.sh <outfile> <seeddir:prop,prop...> ...
out=$1; shift
for item in "$@"; do
  sd=${item%%:*}; props=${item#*:}
  echo "#### $sd" >> $out
  /verif/tools/try_seed.sh ${SEEDOUT:-/tmp/seedout}/$sd/patch.diff $(echo $props | tr , ' ') 2>&1 | cut -c1-200 >> $out
done
echo ALLDONE >> $out
