#!/usr/bin/env python3
"""save_wave10.py — copy the confirmed tenth-wave seeded changes (/tmp/seedout10/<Cxx>/{A,B}) into /verif/seeded/<Cxx>_<next free letters>/, with what
the checks reported first (/tmp/seedout10/first.json, written while the wave was processed) and what they report now (final_*.txt)."""
import json, os, re, shutil
ROOT = '/tmp/seedout10'
FIRST = json.load(open(os.path.join(ROOT, 'first.json')))
import string
def next_letter(prop):
    used = {d.split('_')[1] for d in os.listdir('/verif/seeded') if d.startswith(prop + '_')}
    return next(c for c in string.ascii_uppercase if c not in used)
conf = {}
for l in open(os.path.join(ROOT, 'confirm.txt')):
    p = l.split()
    if p and '_' in p[0]:
        conf[p[0]] = l.strip()
n = 0
for prop in sorted(os.listdir(ROOT)):
    if not re.fullmatch(r'C\d\d', prop):
        continue
    for var in ('A', 'B'):
        key = '%s/%s' % (prop, var)
        src = os.path.join(ROOT, prop, var)
        if not os.path.exists(os.path.join(src, 'patch.diff')):
            continue
        label = '%s_%s' % (prop, var)
        c = conf.get(label, '')
        if 'demo_clean_rc=0 demo_patched_rc=1' not in c or '74 passed' not in c:
            print('NOT CONFIRMED', key, c[:100])
            continue
        fin = os.path.join(ROOT, 'final_%s.txt' % label)
        now = open(fin).read() if os.path.exists(fin) else ''
        viol = re.findall(r'VIOLATION property=(\w+) replay=\S*/(\S+?)\.json( no-failing-input-found)?', now)
        if any(('_fail_' in r or 'regressed' in r) and not nf for _, r, nf in viol):
            now_s = '%s:failing-input' % prop
        elif viol:
            now_s = '%s:no-failing-input-found' % prop
        else:
            now_s = '%s:MISSED' % prop
        f = FIRST.get(key, {'first': '?'})
        if f['first'] == 'failing-input':
            first = 'failing-input at the first run'
        elif f['first'] == 'disagreement-only':
            first = 'first only as a model/code disagreement without a failing input (%s)' % f.get('added', '')
        else:
            first = 'missed-first (%s)' % f.get('added', '')
        if f.get('caught_by'):
            now_s += ' [the change is a violation of %s, whose check reports it with a failing input]' % f['caught_by']
        dst = os.path.join('/verif/seeded', '%s_%s' % (prop, next_letter(prop)))
        os.makedirs(dst, exist_ok=True)
        for fn in ('patch.diff', 'demo.py', 'notes.md'):
            if os.path.exists(os.path.join(src, fn)):
                shutil.copy(os.path.join(src, fn), dst)
        notes = open(os.path.join(dst, 'notes.md')).read() if os.path.exists(os.path.join(dst, 'notes.md')) else ''
        meta = {'breaks_property': prop,
                'origin': 'tenth wave: written by an independent sub-agent that saw only the property text, a scratch worktree of /repo and short descriptions of the earlier changes for this property (to avoid repeats)',
                'needs_to_manifest': notes.strip()[:1500],
                'confirmed_by_me': {'in_scratch_worktree': c, 'meaning': 'demo.py exits 0 on the clean tree and 1 with the patch; the pinned suite still gives 74 passed / the 4 always-failing tests'},
                'checks_run': {'first': first, 'now': now_s}}
        json.dump(meta, open(os.path.join(dst, 'meta.json'), 'w'), indent=1)
        n += 1
        print(key, now_s[:60], '|', first[:70])
print('saved', n)
